"""C16 — symbol tables are well-formed trees; export resolution follows ES
rules; cross-module resolution terminates.

Decides:
  a. create/register pairing: along every path after a symbol is created for a
     parent (`create_new_symbol(p.symbol_id())`, `get_symbol_from_swc_id`,
     `ensure_symbol_for_swc_id`) it is registered with that parent at most once
     and never both as child and as member; inside
     `create_symbol_member_or_export` (definitions of class / interface
     members) exactly once.
  b. every recursive cycle among the cross-module resolution functions (and
     RootSymbol) passes through a function that returns early when a
     visited-set insert fails, and no call edge on such a cycle hands a *fresh*
     visited set to its callee (reviewed exceptions listed).
  c. star re-exports: own exports win, `default` is excluded.
  d. the unsafe lifetime extension is confined: NodeRefBox::unsafe_new always
     receives the filler's own source; the additive-only maps expose no
     removing / replacing method and `insert` asserts non-replacement.
"""
from .lib import *
from .lib import _tail_values

EXPLANATION = (
    "Count-based path analysis of child/member registration after every symbol creation site (T10), SCC analysis of the "
    "cross-module resolution call graph with visited-set threading (T7), guard dominance in exports_and_re_exports_inner "
    "(T5), who-may / argument provenance for NodeRefBox::unsafe_new and the method inventory of the additive-only maps (T3/T4)."
)
EXPLANATION += " " + 'Plus: overload flagging looks at the previous declaration, ambient-ness propagates as a disjunction, dependency lookups prefer types (T12).'
NOT_DECIDED = "that declaration names equal symbol names, ranges lie inside the text, and export-set equality as data"
ASSUMPTIONS = ["structural-descent recursions listed in STRUCTURAL are bounded by the size of the AST / path they descend"]

# Recursions that descend over a finite structure (reviewed).
STRUCTURAL = {
    "symbols::cross_module::ResolvedExportOrReExportAllPath::as_resolved_export": "follows the boxed `next` of a ReExportAllPath: a finite, owned chain",
}
# Fresh visited-set hand-offs on a cycle that were reviewed (caller -> callee).
# Call edges that descend into a strictly smaller structure (reviewed).
STRUCTURAL_EDGES = {
    ("symbols::cross_module::resolve_qualified_name_internal::resolve_path_with_parts", "symbols::cross_module::resolve_qualified_name_internal::resolve_paths_with_parts"):
        "recurses into `link.next`, the children of an owned, finite definition-path tree",
}
FRESH_EDGE_EXEMPT = {
    ("symbols::cross_module::resolve_qualified_name", "symbols::cross_module::resolve_qualified_name_internal"):
        "qualified alias targets (`import a = b.c`): triage input with a qualified alias cycle terminates (the inner search marks the alias symbols it meets before coming back); no non-terminating input could be constructed, so this is kept as a note, not a violation",
}
SET_TYPES = ("&mut std::collections::HashSet<", "&mut std::collections::BTreeSet<", "&mut indexmap::IndexSet<")


def visited_params(F, b):
    """indices (into call_args order) of parameters that are visited sets."""
    out = []
    for i, t in enumerate(b.get("inputs") or []):
        ts = F.tystr(t) or ""
        if ts.startswith(SET_TYPES):
            out.append(i)
    return out


def param_lid(b, idx):
    ps = b["body"]["params"]
    if idx < len(ps) and ps[idx].get("pk") == "bind":
        return ps[idx]["lid"]
    return None


def is_guard_fn(F, b):
    """has `if !P.insert(..) { return .. }` for one of its visited-set params,
    before any recursive call"""
    lids = {param_lid(b, i) for i in visited_params(F, b)}
    lids.discard(None)
    for n in b["_nodes"]:
        if n["k"] == "Ret":
            for g in guards_at(F, n):
                if g.kind == "cond" and not g.pol and g.node.get("k") == "MethodCall" and g.node["name"] == "insert" and peel(g.node["recv"]).get("lid") in lids:
                    return g.node
    return None


def run(F, R, tier):
    _round6(F, R)
    # ---------------- C16-a ------------------------------------------------
    creators = ["ModuleBuilder::create_new_symbol", "ModuleBuilder::get_symbol_from_swc_id", "ModuleBuilder::ensure_symbol_for_swc_id"]
    sites = [n for n in F.all_nodes() if callee_matches(n, creators) and n["_top"].get("self_adt") == "symbols::analyzer::SymbolFiller"]
    R.floor("C16-a symbol creation sites in SymbolFiller", len(sites), 25)
    n_checked = 0
    for c in sites:
        b = c["_top"]
        st = c
        while st.get("_p") is not None and st["_p"].get("k") != "Block":
            st = st["_p"]
        blk = st.get("_p")
        if blk is None:
            continue
        sym_lid = None
        id_lids = set()
        if st.get("k") == "LetStmt" and st["pat"].get("pk") == "bind":
            sym_lid = st["pat"]["lid"]
            if callee_matches(c, ["ModuleBuilder::ensure_symbol_for_swc_id"]) or "SymbolId" in (F.ty(st["pat"]) or ""):
                id_lids.add(sym_lid)
        else:
            asg_ = st.get("e", st)
            if asg_.get("k") == "Assign" and peel(asg_["l"]).get("res") == "local" and peel(asg_["r"]) is c:
                sym_lid = peel(asg_["l"])["lid"]

        # the parent the symbol is created for
        def sym_of_id_expr(e):
            e = peel_value(e)
            if e.get("k") == "MethodCall" and e["name"] == "symbol_id":
                return peel_value(e["recv"]).get("lid")
            i = local_init(e)
            if i is not None:
                i = peel_value(i)
                if i.get("k") == "MethodCall" and i["name"] == "symbol_id":
                    return peel_value(i["recv"]).get("lid")
            return None
        parent_lid = sym_of_id_expr(call_args(c)[-1]) if call_args(c) else None

        def child_of(arg):
            a = peel_value(arg)
            if a.get("k") == "MethodCall" and a["name"] == "symbol_id":
                r = peel_value(a["recv"])
                return r.get("lid") == sym_lid and sym_lid is not None
            if a.get("res") == "local":
                if a["lid"] in id_lids:
                    return True
                for d in local_defs(b, a["lid"]):
                    if d[0] == "let" and d[1] is not None:
                        i = peel_value(d[1])
                        if i.get("k") == "MethodCall" and i["name"] == "symbol_id" and peel_value(i["recv"]).get("lid") == sym_lid and sym_lid is not None:
                            return True
            return False

        def ev_child(n):
            return n.get("k") == "MethodCall" and n["name"] == "add_child_id" and child_of(n["args"][0])

        def ev_member(n):
            return n.get("k") == "MethodCall" and n["name"] == "add_member" and child_of(n["args"][0])

        if sym_lid is None:
            continue
        n_checked += 1
        results = {}
        for label, evf in (("child", ev_child), ("member", ev_member), ("any", lambda n: ev_child(n) or ev_member(n))):
            fl = CountFlow(F, evf)
            fl.run(blk, frozenset([0]))
            counts = set()
            for kind, node, s in fl.exits:
                if s is not None:
                    counts |= set(s)
            results[label] = counts
        inst = "%s|%s" % (b["path"].split("::")[-1], expr_text(c)[:50])
        R.ob("C16-a", "registered at most once, never as both child and member [%s]" % inst, max(results["any"] or {0}) <= 1,
             "after this creation a path registers the new symbol %s with its parent (child counts %s, member counts %s): it would be reachable from its parent twice / as child and member" % (
                 "more than once", sorted(results["child"]), sorted(results["member"])), where(c),
             key="C16|C16-a|%s|%s" % (b["path"], "double-registration"))
        if parent_lid is not None:
            regs = [n for n in walk(blk) if ev_child(n) or ev_member(n)]
            for r_ in regs:
                rl = peel_value(r_["recv"]).get("lid")
                # the registering symbol may be the same value under another local (e.g. `let previous = cur;`)
                same = rl == parent_lid or any(peel_value(y).get("lid") == parent_lid for y in through_locals(peel_value(r_["recv"]))) or any(peel_value(y).get("lid") == rl for y in through_locals({"k": "Path", "res": "local", "lid": parent_lid, "_top": b}))
                R.ob("C16-a", "the symbol is registered with the parent it was created for [%s]" % inst, same,
                     "symbol created with parent `%s` but registered on `%s`: its parent does not list it and the symbol that lists it is not its parent" % (expr_text(call_args(c)[-1]), expr_text(r_["recv"])), where(r_),
                     key="C16|C16-a|%s|parent-mismatch" % b["path"])
        if b["path"].endswith("create_symbol_member_or_export"):
            R.ob("C16-a", "member/definition symbol is registered exactly once [%s]" % inst, results["any"] == {1},
                 "a path creates a member symbol without add_child_id / add_member (counts %s): the symbol is unreachable from its parent" % sorted(results["any"]), where(c))
    R.floor("C16-a creation sites with a tracked symbol", n_checked, 20)
    # placement in create_symbol_member_or_export: static -> child, instance -> member
    cs = F.body("create_symbol_member_or_export")
    for n in cs["_nodes"]:
        if n.get("k") == "MethodCall" and n["name"] in ("add_child_id", "add_member"):
            g = guards_at(F, n)
            def is_static_flag(e):
                e = peel(e)
                return e.get("res") == "local" and tyc(F, e, "bool") and any(pb.get("lid") == e.get("lid") and pb["_p"].get("pk") == "tuple" for pb in cs["_nodes"] if pb.get("k") == "Pat" and pb.get("pk") == "bind")
            static_true = any(x.kind == "cond" and x.pol and is_static_flag(x.node) for x in g)
            static_false = any(x.kind == "cond" and not x.pol and is_static_flag(x.node) for x in g)
            want_static = n["name"] == "add_child_id"
            R.ob("C16-a", "%s happens on the %s path" % (n["name"], "static" if want_static else "instance"), (static_true and not static_false) if want_static else (static_false and not static_true),
                 "%s is not guarded by is_static == %s" % (n["name"], want_static), where(n))

    # ---------------- C16-b ------------------------------------------------
    g = F.callgraph()
    scope = [b["path"] for b in F.bodies if not b.get("derived") and (b["file"] == "src/symbols/cross_module.rs" or "RootSymbol" in b["path"])]
    comps = [c for c in sccs(g, scope) if len(c) > 1 or c[0] in g.get(c[0], ())]
    R.floor("C16-b recursive SCCs in cross-module resolution", len(comps), 3)
    for comp in comps:
        cset = set(comp)
        label = "{" + ", ".join(sorted(p.split("::")[-1] for p in comp)) + "}"
        if all(p in STRUCTURAL for p in comp):
            R.ob("C16-b", "SCC %s is structural descent (reviewed)" % label, True, STRUCTURAL[comp[0]])
            continue
        guards = {}
        for p in comp:
            gn = is_guard_fn(F, F.by_path[p][0])
            if gn is not None:
                guards[p] = gn
        rest = cset - set(guards)
        # edges that shrink a slice parameter (`&parts[1..]`) or descend into an owned tree are bounded
        bounded = set(STRUCTURAL_EDGES)
        for p in rest:
            b = F.by_path[p][0]
            own_params = {pp.get("lid") for pp in b["body"]["params"] if pp.get("pk") == "bind"}
            for call, tgt in call_edges(F, b, cset):
                for a in call_args(call):
                    x = peel(a)
                    if x.get("k") == "Index" and peel(x["e"]).get("lid") in own_params:
                        idx = peel(x["idx"])
                        if idx.get("k") == "Struct" and (idx.get("variant") or "").endswith("ops::RangeFrom"):
                            st = [f["e"] for f in idx["fields"] if f["name"] == "start"]
                            if st and peel(st[0]).get("k") == "Lit" and isinstance(peel(st[0]).get("v"), int) and peel(st[0])["v"] >= 1:
                                bounded.add((p, tgt))
        # an edge is bounded only if *every* call p->q is (conservative: require all call sites to shrink)
        for (p, q) in list(bounded):
            if (p, q) in STRUCTURAL_EDGES or p not in rest:
                continue
            b = F.by_path[p][0]
            for call, tgt in call_edges(F, b, {q}):
                shr = False
                for a in call_args(call):
                    x = peel(a)
                    if x.get("k") == "Index" and peel(x["idx"]).get("k") == "Struct" and (peel(x["idx"]).get("variant") or "").endswith("ops::RangeFrom"):
                        shr = True
                if not shr:
                    bounded.discard((p, q))
        # call-site gating: `if visited.insert(x) { recurse(.., visited) }` guards that edge as well
        for p in rest:
            b = F.by_path[p][0]
            own = {param_lid(b, i) for i in visited_params(F, b)}
            own.discard(None)
            per_target = {}
            for call, tgt in call_edges(F, b, cset):
                gated = any(x.kind == "cond" and x.pol and x.node.get("k") == "MethodCall" and x.node["name"] == "insert" and peel(x.node["recv"]).get("lid") in own for x in guards_at(F, call))
                per_target.setdefault(tgt, []).append(gated)
            for tgt, flags in per_target.items():
                if flags and all(flags):
                    bounded.add((p, tgt))
        sub = {p: [q for q in g.get(p, ()) if q in rest and (p, q) not in bounded] for p in rest}
        unguarded = has_cycle(sub, rest)
        R.ob("C16-b", "every cycle of SCC %s passes a visited-set guard" % label, not unguarded,
             "recursion %s has a cycle that passes no `if !visited.insert(..) { return }` guard (guards found in: %s): cyclic inputs recurse without bound" % (
                 label, sorted(x.split("::")[-1] for x in guards) or "none"),
             F.by_path[comp[0]][0]["file"], key="C16|T7|%s|unguarded-recursion" % sorted(comp)[0])
        # threading of the visited set along edges inside the SCC
        for p in comp:
            b = F.by_path[p][0]
            own = {param_lid(b, i) for i in visited_params(F, b)}
            own.discard(None)
            for call, tgt in call_edges(F, b, cset):
                tb = F.by_path[tgt][0]
                vis = visited_params(F, tb)
                if not vis:
                    continue
                args = call_args(call)
                for vi in vis:
                    if vi >= len(args):
                        continue
                    a = peel_value(args[vi])
                    threaded = a.get("res") == "local" and a.get("lid") in own
                    if not threaded and a.get("res") == "local":
                        # closure parameter / reborrow of the own param?
                        for d in local_defs(b, a["lid"]):
                            if d[0] == "let" and d[1] is not None and peel_value(d[1]).get("lid") in own:
                                threaded = True
                    if threaded:
                        R.ob("C16-b", "%s -> %s threads the caller's visited set" % (p.split("::")[-1], tgt.split("::")[-1]), True)
                        continue
                    ex = FRESH_EDGE_EXEMPT.get((p, tgt))
                    if ex:
                        R.ob("C16-b", "%s -> %s hands over a fresh visited set (reviewed)" % (p.split("::")[-1], tgt.split("::")[-1]), True, ex)
                        R.note("C16-b: fresh visited set on a cycle at %s -> %s: %s" % (p, tgt, ex))
                        continue
                    R.violation("C16-b", "%s -> %s" % (p, tgt),
                                "call on a recursive cycle passes `%s` as the visited set instead of the caller's own: the cycle guard is reset at this hop, so cyclic re-exports / aliases recurse without bound" % expr_text(args[vi]),
                                where(call), key="C16|T7|%s->%s|fresh-visited-set" % (p, tgt))

    # ---------------- C16-c ------------------------------------------------
    ex = F.body("symbols::cross_module::exports_and_re_exports_inner")
    ins = [n for n in ex["_nodes"] if n.get("k") == "MethodCall" and n["name"] in ("insert", "extend") and peel(n["recv"]).get("res") == "local" and tyc(F, n["recv"], "IndexMap<std::string::String, symbols::cross_module::ResolvedExportOrReExportAllPath")]
    R.floor("C16-c inserts into the resolved export map", len(ins), 2)
    star_ins = [n for n in ins if any((ctor_of(x) or "").endswith("::ReExportAllPath") for x in walk(n))]
    R.ob("C16-c", "star re-export insert found", len(star_ins) == 1, "shape changed", ex["file"])
    own_ins = [n for n in ins if n not in star_ins]
    for n in star_ins:
        gs = guards_at(F, n)
        key = peel_value(n["args"][0])
        not_default = any(x.kind == "cond" and x.node.get("k") == "Binary" and ((x.node["op"] == "!=" and x.pol) or (x.node["op"] == "==" and not x.pol)) and peel(x.node["r"]).get("v") == "default" and peel_value(x.node["l"]).get("lid") == key.get("lid") for x in gs)
        own_wins = any(x.kind == "cond" and not x.pol and x.node.get("k") == "MethodCall" and x.node["name"] == "contains_key" and peel(x.node["recv"]).get("lid") == peel(n["recv"]).get("lid") and peel_value(x.node["args"][0]).get("lid") == key.get("lid") for x in gs)
        R.ob("C16-c", "`default` is excluded from star re-exports", not_default, "star re-export insert is not guarded by name != \"default\"", where(n))
        R.ob("C16-c", "own (and earlier) exports take precedence over star re-exports", own_wins, "star re-export insert is not guarded by !resolved.contains_key(&name): a re-exported name would overwrite the module's own export", where(n))
        for o in own_ins:
            R.ob("C16-c", "own exports are entered before star re-exports", may_reach(F, o, n), "own exports inserted after star re-exports", where(o))

    vins = [n for n in ex["_nodes"] if n.get("k") == "MethodCall" and n["name"] == "insert" and peel(n["recv"]).get("lid") in {param_lid(ex, i) for i in visited_params(F, ex)}]
    okk = len(vins) == 1
    if okk:
        k_ = peel_value(vins[0]["args"][0])
        okk = k_.get("k") == "MethodCall" and k_["name"] == "specifier" and tyc(F, k_["recv"], "ModuleInfoRef") and peel_value(k_["recv"]).get("lid") in {p_.get("lid") for p_ in ex["body"]["params"]}
    R.ob("C16-c", "re-export traversal is de-duplicated by the module being visited (its resolved specifier)", okk,
         "the visited set of exports_and_re_exports_inner is not keyed by `module.specifier()` of the module being entered: two different modules reached through the same specifier text would be treated as one and their exports dropped", ex["file"])

    # ---------------- C16-d ------------------------------------------------
    un = [n for n in F.all_nodes() if callee_matches(n, ["NodeRefBox::unsafe_new"])]
    R.floor("C16-d NodeRefBox::unsafe_new call sites", len(un), 20)
    for n in un:
        a = peel_value(n["args"][0])
        ok = a.get("k") == "Field" and a["field"] == "source" and expr_text(a["e"]) in ("self", "__self")
        R.ob("C16-d", "unsafe_new receives the filler's own source [%s]" % n["_top"]["path"].split("::")[-1], ok,
             "NodeRefBox::unsafe_new is given `%s` rather than `self.source`: the node reference may outlive the AST it points into" % expr_text(n["args"][0]), where(n), nontrivial=False)
    allowed = {"default", "with_capacity", "len", "take", "contains_key", "insert", "get"}
    for p, a in F.adts.items():
        if not p.startswith("symbols::collections::AdditiveOnly"):
            continue
        names = {m["name"] for m in a["methods"]}
        R.ob("C16-d", "%s exposes no removing / replacing method" % p, names <= allowed,
             "additive-only map gained method(s) %s: references handed out by get() could dangle" % sorted(names - allowed), a["file"])
        hands_out_refs = any("std::boxed::Box<" in F.types[f["ty"]] for v in a["variants"] for f in v["fields"])
        if not hands_out_refs:
            R.ob("C16-d", "%s stores Copy values and hands out copies only" % p, True, nontrivial=False)
            continue
        insb = [b for b in F.bodies if b["path"] == p + "::insert"]
        for b in insb:
            asserted = any("assert" in (n.get("mac") or []) for n in b["_nodes"])
            R.ob("C16-d", "%s::insert asserts that nothing is replaced" % p, asserted, "insert no longer asserts `.is_none()`", b["file"])

    # overload flagging looks at the declaration added just before (the previous overload
    # signature), and nested declarations inherit ambient-ness from any enclosing `declare`
    adb = F.body("symbols::analyzer::SymbolMut::add_decl")
    pick = [n for n in adb["_nodes"] if n.get("k") == "MethodCall" and n["name"] in ("last", "first", "get", "iter") and field_of(n["recv"]) == "decls"]
    R.ob("C16-c", "an implementation is flagged by looking at the declaration added just before it", len(pick) == 1 and pick[0]["name"] == "last",
         "add_decl inspects `%s`: with merged declarations (namespace + function) the previous overload signature is not the one looked at, so the implementation signature is treated as public API" % (expr_text(pick[0])[:30] if pick else "?"), adb["file"])
    amb = [n for n in F.all_nodes() if n.get("k") == "Binary" and n["op"] in ("||", "&&") and n["_top"]["file"] == "src/symbols/analyzer.rs" and not n["_top"].get("derived")
           and peel(n["l"]).get("res") == "local" and tyc(F, n["l"], "bool") and peel(n["r"]).get("k") == "Field" and peel(n["r"])["field"] == "declare"]
    R.floor("C16-c ambient propagation sites", len(amb), 3)
    for n in amb:
        R.ob("C16-c", "a declaration is ambient if it or anything enclosing it is declared", n["op"] == "||",
             "`%s`: a `declare namespace` inside ordinary code (or ordinary members inside an ambient one) would get the wrong ambient flag, which decides whether bodies are kept" % expr_text(n), where(n))

    # every star re-export of a module takes part in export resolution (`export type *` included):
    # the list handed to the resolver is the module's re_exports, unfiltered
    for fn in ("symbols::analyzer::ModuleInfoRef::re_export_all_specifiers", "symbols::analyzer::ModuleInfoRef::re_export_all_nodes"):
        bs_ = [b for b in F.bodies if b["path"] == fn]
        if not bs_:
            R.ob("C16-c", "%s found" % fn.split("::")[-1], False, "accessor moved", "src/symbols/analyzer.rs")
            continue
        b = bs_[0]
        reads = [n for n in b["_nodes"] if n.get("k") == "Field" and n["field"] == "re_exports"]
        filt = [n for n in b["_nodes"] if n.get("k") == "MethodCall" and n["name"] in ("filter", "skip", "take", "skip_while", "take_while", "step_by")]
        # a filter_map that merely projects a fallible accessor (`as_str()`) is the flat_map it replaces;
        # one that decides (if / match / comparison / then) filters
        filt += [n for n in b["_nodes"] if n.get("k") == "MethodCall" and n["name"] == "filter_map" and any(y.get("k") in ("If", "Match") or (y.get("k") == "Binary" and y["op"] in ("==", "!=", "<", ">", "<=", ">=", "&&", "||")) or (y.get("k") == "MethodCall" and y["name"] in ("then", "then_some", "filter")) for a_ in n["args"] for y in walk(a_))]
        R.ob("C16-c", "%s hands out every star re-export" % fn.split("::")[-1], len(reads) >= 1 and not filt,
             "%s drops some of the module's `export * from` statements (`%s`): names forwarded by them vanish from the resolved export set and definitions behind them become unresolved" % (fn.split("::")[-1], expr_text(filt[0])[:50] if filt else "no read of re_exports"), where(filt[0]) if filt else b["file"])

    # member versus export placement: which declarations count as static
    cm = F.body("symbols::analyzer::SymbolFiller::create_symbol_member_or_export")
    tm = [n for n in cm["_nodes"] if n["k"] == "Match" and tyc(F, n["scrut"], "SymbolNodeRef")]
    n_st = 0
    if R.ob("C16-a", "placement table found", len(tm) >= 1, "create_symbol_member_or_export no longer dispatches on the node kind", cm["file"]):
        for arm in tm[0]["arms"]:
            v, _c = pat_variants(arm["pat"])
            body = peel(arm["body"])
            els = body.get("args") or body.get("elems") or []
            if body.get("k") != "Tup" or len(els) != 3:
                continue
            st = peel_value(els[1])
            for x in v:
                nm = x.split("::")[-1]
                if nm == "TsIndexSignature":
                    want, ok = "the signature's own is_static (classes may declare static index signatures)", st.get("k") == "Field" and st["field"] == "is_static"
                elif nm.startswith("Ts") and ("Signature" in nm):
                    want, ok = "false (interface / type-literal members are instance members)", st.get("k") == "Lit" and st.get("v") is False
                elif nm in ("Constructor", "ExpandoProperty"):
                    want, ok = "true", st.get("k") == "Lit" and st.get("v") is True
                elif nm in ("AutoAccessor", "ClassMethod", "ClassProp"):
                    want, ok = "the member's own is_static", st.get("k") == "Field" and st["field"] == "is_static"
                elif nm == "ClassParamProp":
                    want, ok = "false", st.get("k") == "Lit" and st.get("v") is False
                else:
                    continue
                n_st += 1
                R.ob("C16-a", "%s is placed as %s" % (nm, "export (static)" if "true" == want else ("member" if want.startswith("false") else "static or member by its own flag")), ok,
                     "create_symbol_member_or_export treats %s with is_static = `%s` (expected %s): the declaration is registered on the wrong side (export vs member), so `T[\"name\"]` / `T.name` lookups and fast-check tracing resolve to nothing" % (nm, expr_text(st), want), where(arm["body"]))
    R.floor("C16-a placement table rows", n_st, 12)

    # ---------------- C16-e ------------------------------------------------
    from . import c09
    c09.prefer_types_sites(F, R, tag="C16-e")


def _round6(F, R):
    # C16-d: a symbol taken from a resolved export is always handed on together
    # with *that export's* module (a symbol id is only meaningful in its module)
    n_pairs = 0
    for b in F.bodies:
        if b["file"] != "src/symbols/cross_module.rs" or b.get("derived"):
            continue
        for n in b["_nodes"]:
            if n.get("k") not in ("Call", "MethodCall"):
                continue
            args = call_args(n) if n["k"] == "Call" else n["args"]
            for s_ in args:
                sv = peel_value(s_)
                if sv.get("k") == "MethodCall" and sv["name"] == "symbol" and tyc(F, sv["recv"], "ResolvedExport"):
                    base = peel_value(sv["recv"]).get("lid")
                    mods = [m_ for m_ in args if tyc(F, m_, "ModuleInfoRef<")]
                    if base is None or not mods:
                        continue
                    n_pairs += 1
                    mv = peel_value(mods[0])
                    ok = mv.get("k") == "Field" and mv["field"] == "module" and peel_value(mv["e"]).get("lid") == base
                    R.ob("C16-d", "a resolved export's symbol is passed on with that export's module [%s]" % b["path"].split("::")[-1], ok,
                         "`%s` is passed together with module `%s`, not with the module of the export it came from: a symbol reached through `export *` is then looked up in the wrong module's symbol table (wrong definition, or a panic on the module-id assertion in debug builds)" % (expr_text(s_)[:30], expr_text(mods[0])[:30]),
                         where(n), key="C16|C16-d|symbol-module-pairing|%s" % b["path"].split("::")[-1])
    R.floor("C16-d (module, symbol) hand-offs from a resolved export", n_pairs, 1)
