"""C07 — JSR specifiers map to registry URLs through the manifest, with bookkeeping.

Decides:
  a. in resolve_pending_jsr_specifiers the success arm records the export,
     inserts the redirect from the jsr: specifier to the joined registry URL and
     loads that URL with the version info; `ensure_package(nv)` dominates the
     bookkeeping calls that unwrap the package entry; the failure arm builds
     UnknownExport from the manifest's own export list.
  b. dependency attribution: every path through load_with_redirect_count whose
     (original) specifier is jsr:/npm: passes mark_jsr_dep / mark_npm_dep (also
     on the already-loaded short-circuit); the mark functions attribute the
     requirement to the package that owns the *importing* module's URL with the
     matching kind.
  c. https URLs that point into the registry register their package.
  d. add_nv records requirement -> nv and indexes the nv by name.
  f. lockfile-seeded redirects are never keyed by jsr: / npm: / file: specifiers.
"""
from .lib import *
from .lib import _tail_values

EXPLANATION = (
    "Must-pass-through of the bookkeeping calls on the arms of resolve_pending_jsr_specifiers and of the scheme dispatch in "
    "load_with_redirect_count (T2), dominance of ensure_package over the unwrap-ing bookkeeping (T5), argument provenance of the "
    "inserted redirect and of the attribution calls (T4)."
)
EXPLANATION += " " + 'Plus: dispatch table of maybe_mark_dep, result table of JsrPackageVersionInfo::export for string-valued exports, lockfile-seeded redirects never keyed by jsr:/npm:/file: specifiers.'
NOT_DECIDED = "URL <-> name@version round trip (string arithmetic in recommended_registry_package_url(_to_nv)); exports-map semantics"
CONFIGS = ["default", "nofastcheck"]  # thorough tier also analyses the build without fast_check / symbols
ASSUMPTIONS = []


def run(F, R, tier):
    rs = F.body("graph::Builder::resolve_pending_jsr_specifiers")
    # ---------------- C07-a ------------------------------------------------
    mm = [n for n in walk(rs["body"]) if n["k"] == "Match" and any(mentions_call(y, ["JsrPackageVersionInfo::export"]) for y in through_locals(n["scrut"]))]
    if R.ob("C07-a", "export lookup match found", len(mm) == 1, "shape changed (%d candidates)" % len(mm), rs["file"]):
        m = mm[0]
        for arm in m["arms"]:
            pt = pat_text(arm["pat"])
            if pt.startswith("std::option::Option::Some("):
                binds = {b["name"]: b["lid"] for b in pat_bindings(arm["pat"])}
                for nm, tg in (("packages.add_export", lambda n: callee_matches(n, ["PackageSpecifiers::add_export"])),
                               ("redirects.insert", lambda n: n.get("k") == "MethodCall" and n["name"] == "insert" and field_of(n["recv"]) == "redirects"),
                               ("Builder::load", lambda n: callee_matches(n, ["Builder::load"]))):
                    bad, _ = must_pass(F, arm["body"], tg, exit_kinds=("fallthrough", "return", "break", "continue"))
                    R.ob("C07-a", "resolved export: every path passes %s" % nm, not bad, "a path through the success arm skips %s" % nm, where(arm["body"]))
                ri = [n for n in walk(arm["body"]) if n.get("k") == "MethodCall" and n["name"] == "insert" and field_of(n["recv"]) == "redirects"]
                for r in ri:
                    k = peel_value(r["args"][0])
                    v = peel_value(r["args"][1])
                    R.ob("C07-a", "redirect goes from the jsr: specifier of the request", k.get("k") == "Field" and k["field"] == "specifier" and k.get("adt") == "graph::PendingJsrNvResolutionItem", "redirect key is `%s`" % expr_text(r["args"][0]), where(r))
                    # value = base_url.join(export_value)
                    ok = False
                    src = v
                    if v.get("res") == "local":
                        if v["lid"] in binds.values():
                            # bound by the match pattern: look at the scrutinee definition
                            sc = peel_value(m["scrut"])
                            if sc.get("res") == "local":
                                for d in local_defs(rs, sc["lid"]):
                                    if d[0] == "let":
                                        src = d[1]
                        else:
                            for d in local_defs(rs, v["lid"]):
                                if d[0] == "let":
                                    src = d[1]
                    joins = [x for x in walk(src) if x.get("k") == "MethodCall" and (x.get("fn") or "").endswith("Url::join")]
                    if joins:
                        j = joins[0]
                        base = peel_value(j["recv"])
                        ok = any(mentions_call(y, ["JsrUrlProvider::package_url"]) for y in through_locals(base)) and peel_value(j["args"][0]).get("res") == "local" and tyc(F, j["args"][0], "str")
                    R.ob("C07-a", "redirect target is <package url>.join(<export value from the manifest>)", ok, "redirect value `%s` is not base_url.join(export_value)" % expr_text(r["args"][1]), where(r))
                    ld = [n for n in walk(arm["body"]) if callee_matches(n, ["Builder::load"])]
                    for l in ld:
                        st = [s for s in walk(l) if s.get("k") == "Struct" and s.get("adt") == "graph::LoadOptionsRef"]
                        if st:
                            f = {x["name"]: x["e"] for x in st[0]["fields"]}
                            R.ob("C07-a", "the registry URL that is loaded is the redirect target", peel_value(f["specifier"]).get("lid") == v.get("lid") and v.get("lid") is not None, "load specifier `%s` differs from the redirect target" % expr_text(f["specifier"]), where(l))
                            R.ob("C07-a", "the load carries the version manifest", ctor_of(peel(f["maybe_version_info"])) == "std::option::Option::Some", "maybe_version_info = %s: files of the package would load without manifest checksums" % expr_text(f["maybe_version_info"]), where(l))
                ae = [n for n in walk(arm["body"]) if callee_matches(n, ["PackageSpecifiers::add_export"])]
                for a in ae:
                    R.ob("C07-a", "export bookkeeping is for the selected nv", (peel_value(a["args"][0]).get("res") == "local" and any(y.get("k") == "MethodCall" and y["name"] == "nv" for z in through_locals(a["args"][0]) for y in walk(z))), "add_export nv arg = %s" % expr_text(a["args"][0]), where(a))
                    ens = [n for n in rs["_nodes"] if callee_matches(n, ["PackageSpecifiers::ensure_package"]) and may_reach(F, n, a, scope=None)]
                    g = guards_at(F, a)
                    dom = [n for n in ens if not guards_differ(F, n, a)]
                    R.ob("C07-a", "ensure_package(nv) dominates add_export (which unwraps the entry)", len(dom) >= 1, "add_export is not preceded by ensure_package on every path: it would panic", where(a))
            else:
                ue = [n for n in walk(arm["body"]) if n.get("k") == "Struct" and n.get("variant") == "graph::JsrLoadError::UnknownExport"]
                if R.ob("C07-a", "unknown export yields UnknownExport", len(ue) == 1 and any(n.get("k") == "MethodCall" and n["name"] == "insert" and field_of(n["recv"]) == "module_slots" for n in walk(arm["body"])),
                        "None arm does not store an UnknownExport error entry", where(arm["body"])):
                    f = {x["name"]: x["e"] for x in ue[0]["fields"]}
                    R.ob("C07-a", "the error lists the manifest's exports", any(callee_matches(x, ["JsrPackageVersionInfo::exports"]) for x in walk(f["exports"])), "exports = %s" % expr_text(f["exports"])[:60], where(ue[0]))
                    R.ob("C07-a", "the error names the requested export", any(y.get("k") == "MethodCall" and y["name"] == "export_name" for z in through_locals(peel_value(f["export_name"]) if peel_value(f["export_name"]).get("k") != "MethodCall" else peel_value(peel_value(f["export_name"])["recv"])) for y in walk(z)) or any(y.get("k") == "MethodCall" and y["name"] == "export_name" for y in walk(f["export_name"])), "export_name = %s" % expr_text(f["export_name"]), where(ue[0]))

    # ---------------- C07-b ------------------------------------------------
    lw = F.body("graph::Builder::load_with_redirect_count")
    mk = lambda n: callee_matches(n, ["Builder::mark_jsr_dep", "Builder::mark_npm_dep", "Builder::maybe_mark_dep"])
    # dispatch arms
    dm = [n for n in walk(lw["body"]) if n["k"] == "Match" and any(callee_matches(x, ["Builder::parse_load_specifier_kind"]) for x in walk(n["scrut"]))]
    if R.ob("C07-b", "scheme dispatch found", len(dm) == 1, "shape changed", lw["file"]):
        for arm in dm[0]["arms"]:
            pt = pat_text(arm["pat"])
            for kind, fn in (("Jsr", "Builder::mark_jsr_dep"), ("Npm", "Builder::mark_npm_dep")):
                if "LoadSpecifierKind::" + kind in pt:
                    bad, _ = must_pass(F, arm["body"], lambda n, fn=fn: callee_matches(n, [fn]), exit_kinds=("fallthrough", "return", "break", "continue"))
                    R.ob("C07-b", "%s: specifier attributed to the importing package on every path" % kind.lower(), not bad, "a path through the %s arm skips %s" % (kind, fn), where(arm["body"]))
    # short-circuit on an existing slot
    rets = [n for n in lw["_nodes"] if n["k"] == "Ret"]
    sc = []
    for r in rets:
        g = guards_at(F, r)
        if any(x.kind == "pat" and x.pol and mentions_field(x.scrut, "module_slots") for x in g) and any(x.kind == "cond" and not x.pol and any(mentions_call(y, ["ModuleSlot::was_external_asset_load"]) for y in through_locals(x.node)) for x in g):
            sc.append(r)
    if R.ob("C07-b", "already-loaded short-circuit found", len(sc) == 1, "shape changed", lw["file"]):
        r = sc[0]
        blk = r
        while blk.get("_p") is not None and not (blk.get("k") == "Block" and blk["_p"].get("k") == "If"):
            blk = blk["_p"]
        marks = [n for n in walk(blk) if mk(n) and may_reach(F, n, r)]
        ok = False
        if marks:
            g = guards_at(F, marks[0], stop_at=blk)
            def is_given_specifier(e):
                # `<local>.scheme()` where the local is the specifier as given by the caller (options.specifier), not the redirect-mapped one
                e = peel(e)
                if not (e.get("k") == "MethodCall" and e["name"] == "scheme"):
                    return False
                chain = through_locals(peel_value(e["recv"]))
                return any(peel_value(y).get("k") == "Field" and peel_value(y)["field"] == "specifier" and peel_value(y).get("adt") == "graph::LoadOptionsRef" for y in chain) and not any(mentions_field(y, "redirects") for y in chain)
            conds_ok = any(x.kind == "pat" and x.pol and set(re.findall(r"'(\w+)'", pat_text(x.pat))) == {"jsr", "npm"} and is_given_specifier(x.scrut) for x in g)
            others = [x for x in g if x.kind == "cond" and not (x.node.get("k") == "Match" and "matches" in (x.node.get("mac") or []) and is_given_specifier(x.node["scrut"]))]
            ok = conds_ok and not others
        R.ob("C07-b", "an already-loaded jsr:/npm: specifier is still attributed to the new importer", ok,
             "the existing-slot short-circuit returns without mark_*_dep for jsr:/npm: specifiers (or only under extra conditions): a second package importing the same jsr: specifier gets no dependency entry", where(r))
    for fn, kind in (("graph::Builder::mark_jsr_dep", "jsr"), ("graph::Builder::mark_npm_dep", "npm")):
        b = F.body(fn)
        ad = [n for n in b["_nodes"] if callee_matches(n, ["PackageSpecifiers::add_dependency"])]
        if R.ob("C07-b", "%s records a dependency" % fn.split("::")[-1], len(ad) == 1, "no add_dependency call", b["file"]):
            a = ad[0]
            k = [x for x in walk(a["args"][1]) if x.get("k") == "Call" and (x.get("fn") or "").startswith("deno_semver::jsr::JsrDepPackageReq::")]
            R.ob("C07-b", "%s records a %s requirement" % (fn.split("::")[-1], kind), len(k) == 1 and k[0]["fn"].endswith("::" + kind), "dependency kind is %s" % [x.get("fn") for x in k], where(a))
            nvv = peel_value(a["args"][0])
            ok = False
            if nvv.get("res") == "local":
                for d in local_defs(b, nvv["lid"]):
                    if d[1] is not None:
                        c = [x for x in walk(d[1]) if callee_matches(x, ["JsrUrlProvider::package_url_to_nv"])]
                        if c:
                            arg = peel_value(c[0]["args"][0])
                            ok = arg.get("k") == "Field" and arg["field"] == "specifier" and arg.get("adt") == "graph::Range"
            R.ob("C07-b", "%s attributes to the package owning the importing module's URL" % fn.split("::")[-1], ok, "nv argument `%s` is not package_url_to_nv(&range.specifier)" % expr_text(a["args"][0]), where(a))
    # every resolved dependency edge is attributed with its *own* range: either
    # it is loaded right away with that range, or (parked dynamic branches,
    # which are later loaded once with the first importer's range only) it is
    # attributed when it is parked
    vmd = F.body("graph::Builder::visit_module_dependencies")
    n_edges = 0
    for n in vmd["_nodes"]:
        if not (n["k"] == "If" and n["cond"].get("k") == "Let" and "graph::Resolution::Ok" in pat_text(n["cond"]["pat"])):
            continue
        n_edges += 1
        binds = {b["lid"] for b in pat_bindings(n["cond"]["pat"])}

        def range_local(e):
            e = peel_value(e)
            if ctor_of(e) == "std::option::Option::Some":
                e = peel_value(e["args"][0])
            if e.get("res") == "local":
                for d in local_defs(vmd, e["lid"]):
                    if d[1] is not None:
                        i = peel_value(d[1])
                        if i.get("k") == "Field" and i["field"] == "range" and peel_value(i["e"]).get("lid") in binds:
                            return True
            return e.get("k") == "Field" and e["field"] == "range" and peel_value(e["e"]).get("lid") in binds

        def attributes(m):
            if callee_matches(m, ["Builder::load"]):
                st = [s_ for s_ in walk(m) if s_.get("k") == "Struct" and s_.get("adt") == "graph::LoadOptionsRef"]
                return bool(st) and range_local([f["e"] for f in st[0]["fields"] if f["name"] == "maybe_range"][0])
            if m.get("k") in ("Call", "MethodCall"):
                tgt = m.get("impl") or m.get("fn")
                if tgt in ("graph::Builder::maybe_mark_dep", "graph::Builder::mark_jsr_dep", "graph::Builder::mark_npm_dep"):
                    return any(range_local(a) for a in call_args(m)[1:])
                # a local helper that forwards (specifier, range) to maybe_mark_dep
                hb = F.by_path.get(tgt or "")
                if hb and hb[0]["path"].startswith("graph::Builder::") and any(callee_matches(x, ["Builder::maybe_mark_dep", "Builder::mark_jsr_dep", "Builder::mark_npm_dep"]) for x in hb[0]["_nodes"]):
                    return any(range_local(a) for a in call_args(m)[1:])
            return False

        bad, _ = must_pass(F, n["then"], attributes, exit_kinds=("fallthrough", "return", "break", "continue"))
        fld = [x["field"] for x in walk(n["cond"]["init"]) if x.get("k") == "Field"]
        R.ob("C07-b", "resolved %s edge is attributed to its own importer on every path (loaded with its range, or marked when parked)" % (fld[0] if fld else "?"), not bad,
             "a path through this dependency branch (the parked dynamic-import path) neither loads the target with this import's range nor marks the jsr:/npm: requirement for it: when two packages dynamically import the same jsr: specifier only the first importer's package gets the dependency recorded",
             where(bad[0][1]) if bad else where(n), key="C07|C07-b|graph::Builder::visit_module_dependencies|parked-dynamic-import-not-attributed")
    R.floor("C07-b dependency edges in visit_module_dependencies", n_edges, 2)

    # ---------------- C07-c ------------------------------------------------
    rp = F.body("graph::Builder::resolve_pending")
    ifs = [n for n in rp["_nodes"] if n["k"] == "If" and n["cond"].get("k") == "Let" and tyc(F, n["cond"]["init"], "graph::LoadedJsrPackageViaHttpsUrl")]
    if R.ob("C07-c", "https-registry bookkeeping found", len(ifs) == 1, "shape changed", rp["file"]):
        bad, _ = must_pass(F, ifs[0]["then"], lambda n: callee_matches(n, ["PackageSpecifiers::ensure_package"]), exit_kinds=("fallthrough", "return", "break", "continue"))
        R.ob("C07-c", "a package reached through an https registry URL is registered", not bad, "a path skips ensure_package for a package loaded via its https URL: later add_dependency for its modules would panic", where(ifs[0]))
        vis = [n for n in rp["_nodes"] if callee_matches(n, ["Builder::visit"])]
        R.ob("C07-c", "registration happens before the module is visited", bool(vis) and all(may_reach(F, ifs[0], v, scope=None) for v in vis), "ensure_package after visit", where(ifs[0]))
    # ---------------- C07-e ------------------------------------------------
    un = F.body("source::recommended_registry_package_url_to_nv")
    sp = [n for n in un["_nodes"] if n.get("k") == "MethodCall" and n["name"] == "strip_prefix"]
    ok = False
    for s_ in sp:
        r, a = peel_value(s_["recv"]), peel_value(s_["args"][0])
        if r.get("k") == "MethodCall" and r["name"] == "as_str" and a.get("k") == "MethodCall" and a["name"] == "as_str" and [p_.get("lid") for p_ in un["body"]["params"]] == [peel_value(a["recv"]).get("lid"), peel_value(r["recv"]).get("lid")]:
            # and a failed prefix match ends the conversion
            ok = s_["_p"].get("k") == "Try"
    R.ob("C07-e", "a URL is attributed to a package only if the whole registry URL (scheme, authority, path) is its prefix", ok,
         "recommended_registry_package_url_to_nv no longer requires `url.as_str()` to start with `registry_url.as_str()`: look-alike URLs (other scheme, port or user-info) would be attributed to the registry package and load without its manifest checksums", un["file"])
    pu = F.body("source::recommended_registry_package_url")
    j = [n for n in pu["_nodes"] if n.get("k") == "MethodCall" and (n.get("fn") or "").endswith("Url::join")]
    R.ob("C07-e", "the package URL is the registry URL joined with name/version/", len(j) == 1 and peel_value(j[0]["recv"]).get("lid") == pu["body"]["params"][0].get("lid"), "package url construction changed", pu["file"])

    for fn, fld in (("packages::PackageSpecifiers::add_dependency", "found_dependencies"), ("packages::PackageSpecifiers::add_export", "exports")):
        b_ = F.body(fn)
        ins_ = [n for n in b_["_nodes"] if n.get("k") == "MethodCall" and n["name"] == "insert" and field_of(n["recv"]) == fld]
        bad, _ = must_pass(F, b_["body"]["value"], lambda n: n in ins_)
        R.ob("C07-d", "%s records what it is given on every path" % fn.split("::")[-1], len(ins_) == 1 and not bad,
             "a path through %s returns without inserting into %s: some requirement / export a package's module uses is not recorded" % (fn.split("::")[-1], fld), where(bad[0][1]) if bad else b_["file"])

    # ---------------- C07-d ------------------------------------------------
    an = F.body("packages::PackageSpecifiers::add_nv")
    ins = [n for n in an["_nodes"] if n.get("k") == "MethodCall" and n["name"] == "insert" and field_of(n["recv"]) == "package_reqs"]
    bad, _ = must_pass(F, an["body"]["value"], lambda n: n in ins)
    R.ob("C07-d", "add_nv records requirement -> name@version on every path", len(ins) == 1 and not bad, "package_reqs.insert skipped on some path", an["file"])
    byn = [n for n in an["_nodes"] if n.get("k") == "Field" and n["field"] == "packages_by_name"]
    R.ob("C07-d", "add_nv indexes the selection by package name (feeds tier-1 unification)", len(byn) >= 1 and any(n.get("k") == "MethodCall" and n["name"] == "push" for n in an["_nodes"]), "packages_by_name no longer updated", an["file"])

    # both kinds of registry requirement are attributed to the importing package
    mm_ = F.body("graph::Builder::maybe_mark_dep")
    tbl = {}
    for m in [n for n in mm_["_nodes"] if n["k"] == "Match" and tyc(F, n["scrut"], "LoadSpecifierKind")]:
        for arm in m["arms"]:
            v, _c = pat_variants(arm["pat"])
            for x in v:
                tbl[x.split("::")[-1]] = sorted({(c_.get("fn") or "").split("::")[-1] for c_ in walk(arm["body"]) if c_.get("k") in ("Call", "MethodCall") and (c_.get("fn") or "").startswith("graph::Builder::mark_")})
    R.ob("C07-b", "a jsr: import is attributed via mark_jsr_dep, an npm: import via mark_npm_dep", tbl.get("Jsr") == ["mark_jsr_dep"] and tbl.get("Npm") == ["mark_npm_dep"],
         "maybe_mark_dep dispatches %s: the requirements of one kind are not recorded for the importing package" % tbl, mm_["file"])
    for fn, fld in (("graph::Builder::mark_jsr_dep", "Jsr"), ("graph::Builder::mark_npm_dep", "Npm")):
        b_ = F.body(fn)
        ad = [n for n in b_["_nodes"] if callee_matches(n, ["PackageSpecifiers::add_dependency"])]
        ok = len(ad) == 1 and any((ctor_of(x) or "").endswith("PackageKind::" + fld) or (x.get("k") == "Call" and (x.get("fn") or "").endswith("JsrDepPackageReq::" + fld.lower())) for x in walk(ad[0]))
        R.ob("C07-b", "%s records a %s requirement for the importing package" % (fn.split("::")[-1], fld.lower()), ok, "%s no longer calls add_dependency with a %s requirement" % (fn.split("::")[-1], fld.lower()), b_["file"])

    # a manifest whose `exports` is a single string exports exactly "."
    ex = F.body("packages::JsrPackageVersionInfo::export")
    vals = []
    _tail_values(F, ex["body"]["value"], vals)
    for r_ in walk(ex["body"]["value"]):
        if r_.get("k") == "Ret" and "e" in r_:
            _tail_values(F, r_["e"], vals)
    n_s = 0
    for v in vals:
        g = guards_at(F, v)
        in_string = any(x.kind == "pat" and x.pol and "Value::String" in pat_text(x.pat) and tyc(F, x.scrut, "serde_json::Value") and not tyc(F, x.scrut, "Option<") and any(mentions_field(y, "exports") for y in through_locals(x.scrut)) for x in g)
        if not in_string:
            continue
        n_s += 1
        pv = peel(v)
        if pv.get("k") == "MethodCall" and pv["name"] in ("then_some", "then"):
            # `(export_name == ".").then_some(path)`: Some for `.`, None otherwise, in one expression
            c_ = peel(pv["recv"])
            ok_ = c_.get("k") == "Binary" and c_["op"] == "==" and any(peel(c_[s_]).get("v") == "." for s_ in ("l", "r"))
            n_s += 1
            R.ob("C07-a", "string-valued exports: a path is answered exactly for the `.` export", ok_, "export() answers `%s` for a string manifest" % expr_text(pv)[:50], where(v))
            continue
        dot = [x for x in g if x.kind == "cond" and x.node.get("k") == "Binary" and x.node["op"] in ("==", "!=") and any(peel(x.node[s_]).get("v") == "." for s_ in ("l", "r"))]
        is_dot = any(x.pol == (x.node["op"] == "==") for x in dot)
        some = ctor_of(v) == "std::option::Option::Some"
        R.ob("C07-a", "string-valued exports: `%s` is answered for %s" % ("Some(path)" if some else "None", "the `.` export" if is_dot else "any other export"), bool(dot) and some == is_dot,
             "JsrPackageVersionInfo::export returns %s for %s when the manifest's exports is a plain string: a missing export would redirect to the main entry (or the main entry would be unknown)" % ("a path" if some else "None", "`.`" if is_dot else "names other than `.`"), where(v))
    R.floor("C07-a results of export() for string manifests", n_s, 2)

    # ---------------- C07-f ------------------------------------------------
    # redirects seeded from a lockfile never shadow a jsr: / npm: / file: specifier: a jsr:
    # specifier must go through resolve_pending_jsr_specifiers (export lookup, mappings,
    # dependency attribution), so a seeded redirect keyed by one would bypass all of it
    fl_ = F.body("graph::ModuleGraph::fill_from_lockfile")
    ri = [n for n in fl_["_nodes"] if n.get("k") == "MethodCall" and n["name"] == "insert" and field_of(n["recv"]) == "redirects"]
    if R.ob("C07-f", "lockfile redirects are seeded in one place", len(ri) == 1, "fill_from_lockfile inserts redirects at %d site(s)" % len(ri), fl_["file"]):
        key = peel_value(ri[0]["args"][0])
        ok = False
        for x in guards_at(F, ri[0]):
            if x.kind == "pat" and not x.pol and all(s_ in pat_text(x.pat) for s_ in ("jsr", "npm", "file")):
                sc = peel(x.scrut)
                if sc.get("k") == "MethodCall" and sc["name"] == "scheme" and peel_value(sc["recv"]).get("lid") == key.get("lid"):
                    ok = True
        R.ob("C07-f", "a seeded redirect is never keyed by a jsr: / npm: / file: specifier", ok,
             "fill_from_lockfile accepts a redirect whose *source* has scheme jsr/npm/file (the scheme test is not on the inserted key `%s`): a later build follows it straight to the target URL and the registry resolution for that specifier (export lookup, mappings, dependency records) never runs" % expr_text(ri[0]["args"][0]), where(ri[0]))


def guards_differ(F, a, b):
    """True if `a` sits under a condition that `b` does not (so a does not
    dominate b): compares the enclosing If/Match ancestors."""
    def conds(n):
        out = []
        child = n
        for p in ancestors(n):
            if p.get("k") in ("If", "Match", "While", "For", "Loop") and not is_within(b, p) or (p.get("k") in ("If",) and is_within(b, p) and child.get("_role") in ("then", "else") and not is_within(b, child)):
                out.append(p)
            child = p
        return out
    return bool(conds(a))
