"""C14 — redirect following terminates and all lookups agree with the walk.

Decides:
  a. `ModuleGraph::resolve`: the redirect-following loop breaks when the next
     specifier was already seen (set insert fails) before it advances.
  b. every key used to index `module_slots` inside the read-only public lookup
     API of ModuleGraph is the result of `ModuleGraph::resolve` (so chains of
     any length, lockfile-seeded redirects included, are followed the same way
     by every lookup).
  c. arm tables of get / try_get / contains / resolve_dependency_from_dep.
"""
from .lib import *
from .lib import _tail_values

EXPLANATION = (
    "Termination guard of the redirect-following loop (T7: visited-set insert gates the advance), provenance of every "
    "module_slots key inside ModuleGraph's read-only public API (T4/T12: all siblings must derive the key from "
    "ModuleGraph::resolve), and arm tables of the lookup functions (T8)."
)
EXPLANATION += " " + 'Plus: the loop is left early only at the hop cap (polarity), entries created while dispatching a load are filed under the redirect-mapped specifier.'
NOT_DECIDED = "agreement of each lookup's result with the walk for all graphs; idempotence of resolve for chains longer than its internal cap"
CONFIGS = ["default", "nofastcheck"]  # thorough tier also analyses the build without fast_check / symbols
ASSUMPTIONS = ["HashSet::insert returns false exactly when the element is present"]


def run(F, R, tier):
    res = F.body("graph::ModuleGraph::resolve")
    # ---------------- C14-a ------------------------------------------------
    loops = [n for n in walk(res["body"]) if n["k"] in ("While", "Loop", "For")]
    R.floor("C14-a loops in ModuleGraph::resolve", len(loops), 1)
    for lp in loops:
        ok_guard = False
        detail = "loop has no `if !seen.insert(next) { break }`"
        cur_lid = None
        nxt_lid = None
        # `while let Some(next) = self.redirects.get(cur)`, or the same lookup as
        # `let Some(next) = .. else { break }` / `if let` / `match` inside a `loop`
        end_of_chain = []  # sub-trees executed when the lookup finds no further redirect
        for gc in walk(lp):
            if gc.get("k") == "MethodCall" and gc["name"] == "get" and field_of(gc["recv"]) == "redirects" and cur_lid is None:
                for a in k_ancestors(gc):
                    if a is lp["_p"]:
                        break
                    if a.get("k") in ("Let", "LetStmt") and "init" in a and is_within(gc, a["init"]):
                        bs = pat_bindings(a["pat"])
                        if bs:
                            cur_lid = peel_value(gc["args"][0]).get("lid")
                            nxt_lid = bs[0]["lid"]
                            if "else" in a:
                                end_of_chain.append(a["else"])
                            elif a["_p"].get("k") == "If" and a["_p"]["cond"] is a and "else" in a["_p"]:
                                end_of_chain.append(a["_p"]["else"])
                        break
                    if a.get("k") == "Match" and is_within(gc, a["scrut"]):
                        bs = [b_ for arm in a["arms"] for b_ in pat_bindings(arm["pat"])]
                        if bs:
                            cur_lid = peel_value(gc["args"][0]).get("lid")
                            nxt_lid = bs[0]["lid"]
                            end_of_chain += [arm["body"] for arm in a["arms"] if not pat_bindings(arm["pat"])]
                        break
        R.ob("C14-a", "loop advances along graph.redirects", cur_lid is not None and nxt_lid is not None,
             "the loop in resolve does not look up `self.redirects.get(cur)` and bind the next hop", where(lp))
        breaks = [n for n in walk(lp["body"], into_closures=False) if n["k"] == "Break" and n.get("target") == lp.get("h")]
        seen_break = None
        for br in breaks:
            for g in guards_at(F, br, stop_at=lp):
                if g.kind == "cond" and not g.pol and g.node.get("k") == "MethodCall" and g.node.get("fn") in ("std::collections::HashSet::insert", "std::collections::BTreeSet::insert", "indexmap::IndexSet::insert"):
                    if peel_value(g.node["args"][0]).get("lid") == nxt_lid:
                        seen_break = (br, g.node)
        if R.ob("C14-a", "loop breaks when the next specifier was already seen", seen_break is not None, detail, where(lp),
                key="C14|C14-a|resolve-cycle-guard"):
            ins = seen_break[1]
            # every advance `cur = next` happens after the insert check
            adv = [a for a in walk(lp["body"]) if a["k"] == "Assign" and peel(a["l"]).get("lid") == cur_lid]
            R.ob("C14-a", "loop variable advances in the body", len(adv) >= 1, "no assignment to the loop variable: the loop would spin", where(lp))
            for a in adv:
                R.ob("C14-a", "advance happens after the seen-check", may_reach(F, ins, a) and peel_value(a["r"]).get("lid") == nxt_lid,
                     "the loop variable is advanced before / without the visited-set check", where(a))
            # once a specifier has been recorded as seen, the cursor advances to
            # it before the iteration can end (otherwise resolve() returns a
            # specifier that is not the last one it followed)
            bad, _ = must_pass(F, lp["body"], lambda n: n in adv, is_reset=lambda n: n is ins, init=True,
                               exit_kinds=("fallthrough", "break", "continue", "return"))
            # the break taken because the insert failed is the legitimate exit without advance
            bad = [(k_, n_) for (k_, n_) in bad if n_ is not seen_break[0]]
            R.ob("C14-a", "after a successful seen-insert the cursor advances before the iteration ends", not bad,
                 "a path leaves the loop iteration after `seen.insert(next)` succeeded but before `cur = next`: resolve() stops one hop short of what it recorded (lookups disagree with the walk, resolve is not idempotent)",
                 where(bad[0][1]) if bad else "")
            # any other way out of the loop is the hop cap: taken only once the number of followed
            # hops has reached a bound, never below it
            for br in [x for x in walk(lp["body"]) if x.get("k") in ("Break", "Ret") and x is not seen_break[0] and not any(is_within(x, e_) for e_ in end_of_chain)]:
                g = guards_at(F, br, stop_at=lp)
                capped = any(x.kind == "cond" and x.pol and x.node.get("k") == "Binary" and x.node["op"] in (">=", ">") and any(y.get("k") == "MethodCall" and y["name"] == "len" for y in walk(x.node["l"])) for x in g) or \
                    any(x.kind == "cond" and x.pol and x.node.get("k") == "Binary" and x.node["op"] in ("<=", "<") and any(y.get("k") == "MethodCall" and y["name"] == "len" for y in walk(x.node["r"])) for x in g)
                R.ob("C14-a", "the chain is abandoned early only at the hop cap", capped,
                     "the resolve loop can be left although the chain continues and the hop count is below the cap (`%s` under %s): redirect chains of two or more hops would resolve to an intermediate specifier" % (expr_text(br)[:20], [x.text()[:40] for x in g if x.kind == "cond"]), where(br))
            # the set is seeded with the starting points before the loop
            seeds = [n for n in walk(res["body"]) if n.get("k") == "MethodCall" and n["name"] == "insert" and n is not ins and peel(n["recv"]).get("lid") == peel(ins["recv"]).get("lid") and may_reach(F, n, lp)]
            R.ob("C14-a", "visited set is seeded before the loop", len(seeds) >= 1, "the starting specifier is not in the visited set: a cycle back to the start is followed once more", where(lp))
            # ... and one of the seeds is the specifier the lookup started from (the parameter)
            start_lid = res["body"]["params"][1].get("lid") if len(res["body"]["params"]) > 1 else None

            def _is_start(sd):
                a_ = peel_value(sd["args"][0])
                if a_.get("lid") == start_lid:
                    return True
                if a_.get("res") != "local":
                    return False
                ds = local_defs(res, a_["lid"])
                lets = [d for d in ds if d[0] == "let" and d[1] is not None]
                asg = [d for d in ds if d[0] == "assign"]
                return len(lets) == 1 and peel_value(lets[0][1]).get("lid") == start_lid and all(not may_reach(F, d[2], sd) for d in asg)
            R.ob("C14-a", "the specifier the lookup starts from is in the visited set", any(_is_start(sd) for sd in seeds),
                 "resolve() does not record its starting specifier as seen: for a redirect cycle entered on the cycle it goes once round and answers the start itself, so try_get(a) finds no slot where the walk reaches the error filed under the cycle's other member",
                 where(lp), key="C14|C14-a|start-not-seeded")

    # ---------------- C14-b ------------------------------------------------
    S = Slicer(F, sources=["ModuleGraph::resolve"])
    n_keys = 0
    lookup_fns = []
    for b in F.bodies:
        if b.get("derived") or b.get("self_adt") != "graph::ModuleGraph" or not b.get("pub"):
            continue
        ins = b.get("inputs") or []
        if not ins or not (F.tystr(ins[0]) or "").startswith("&") or (F.tystr(ins[0]) or "").startswith("&mut"):
            continue
        lookup_fns.append(b["path"])
        for n in b["_nodes"]:
            if n.get("k") == "MethodCall" and n["name"] in ("get", "contains_key", "get_key_value") and field_of(n["recv"]) == "module_slots" and peel(n["recv"]).get("adt") == "graph::ModuleGraph":
                n_keys += 1
                leaves = S.origins(n["args"][0])
                bad = [l for l in leaves if l.kind != "src"]
                fn = b["path"].split("::")[-1]
                R.ob("C14-b", "%s: module_slots key `%s` comes from ModuleGraph::resolve" % (b["path"], expr_text(n["args"][0])), not bad and bool(leaves),
                     "`module_slots.get(%s)` in the public lookup `%s` uses a key that is not the result of `self.resolve(..)` (%s): for redirect chains longer than one hop this lookup disagrees with get()/the walk" % (
                         expr_text(n["args"][0]), fn, ", ".join(sorted({l.kind + ":" + str(l.what)[:40] for l in bad}))),
                     where(n), key="C14|C14-b|%s|%s" % (b["path"], expr_text(n["args"][0])))
                R.sample({"rule": "C14-b", "fn": b["path"], "key": expr_text(n["args"][0]), "origins": sorted({l.key() for l in leaves})})
    R.floor("C14-b module_slots lookups in ModuleGraph's read-only public API", n_keys, 7)
    R.analysed["lookup_fns"] = lookup_fns
    # the error iterator's own lookup
    cr = F.body("graph::ModuleGraphErrorIterator::check_resolution")
    for n in cr["_nodes"]:
        if n.get("k") == "MethodCall" and n["name"] == "get" and field_of(n["recv"]) == "module_slots":
            leaves = S.origins(n["args"][0])
            R.ob("C14-b", "check_resolution: module_slots key comes from ModuleGraph::resolve", bool(leaves) and all(l.kind == "src" for l in leaves),
                 "error walk looks up a dependency target without following redirects", where(n))

    # ---------------- C14-d ------------------------------------------------
    # while building, entries are filed under the redirect-mapped specifier: a
    # specifier never holds both a redirect and an entry of its own
    lw = F.body("graph::Builder::load_with_redirect_count")
    mapped = [n for n in lw["_nodes"] if n.get("k") == "LetStmt" and "init" in n and any(y.get("k") == "MethodCall" and y["name"] == "get" and field_of(y["recv"]) == "redirects" for y in walk(n["init"]))]
    if R.ob("C14-d", "load_with_redirect_count maps the specifier through known redirects", len(mapped) == 1, "shape changed", lw["file"]):
        mlid = mapped[0]["pat"].get("lid")
        n_i = 0
        for n in lw["_nodes"]:
            if n.get("k") == "MethodCall" and n["name"] == "insert" and field_of(n["recv"]) == "module_slots":
                n_i += 1
                k_ = peel_value(n["args"][0])
                ok = k_.get("lid") == mlid or any(peel_value(y).get("lid") == mlid for y in through_locals(k_))
                R.ob("C14-d", "an entry created while dispatching a load is filed under the redirect-mapped specifier", ok,
                     "module_slots.insert(%s, ..) in load_with_redirect_count uses the specifier as written, not the one reached through the known redirect: the same specifier would have a redirect and an entry, and lookups (which follow the redirect) disagree with the walk (which finds the entry first)" % expr_text(n["args"][0]), where(n))
        R.floor("C14-d slot inserts in load_with_redirect_count", n_i, 5)

    # a loaded module is filed under the specifier the loader answered with (the same one the
    # redirect is recorded to), at every place a Module response is turned into an entry
    hs_calls = [n for n in F.all_nodes() if n.get("k") == "Call" and (n.get("fn") or "").endswith("::handle_success") and not n["_top"].get("derived")]
    R.floor("C14-d module responses turned into entries", len(hs_calls), 2)
    for c in hs_calls:
        a = c["args"]
        key = peel_value(a[1])
        st = [x for x in walk(a[2]) if x.get("k") == "Struct" and (x.get("adt") or "").endswith("ParseModuleAndSourceInfoOptions")]
        parsed = peel_value([f_["e"] for f_ in st[0]["fields"] if f_["name"] == "specifier"][0]) if st else {}
        from_resp = False
        if key.get("res") == "local":
            for q in c["_top"]["_nodes"]:
                if q.get("k") == "Pat" and (q.get("path") or "").endswith("LoadResponse::Module"):
                    for fp in q.get("fields") or []:
                        if fp.get("name") == "specifier" and any(b_.get("lid") == key["lid"] for b_ in pat_bindings(fp["pat"])):
                            from_resp = True
        R.ob("C14-d", "a module response is filed under the specifier the loader answered with", from_resp and parsed.get("lid") == key.get("lid"),
             "handle_success(.., %s, ..{ specifier: %s }): the entry is keyed by something other than the response's final specifier, while the redirect is recorded to the final specifier — lookups (which follow the redirect) find nothing and the walk (which finds the entry first) disagrees" % (expr_text(a[1])[:40], expr_text(parsed)[:40] if parsed else "?"), where(c))
    hsb = [b for b in F.bodies if b["path"].endswith("::handle_success")]
    if hsb:
        lits = [n for n in hsb[0]["_nodes"] if n["k"] == "Struct" and (n.get("variant") or "").endswith("PendingInfoResponse::Module")]
        ok = len(lits) == 1 and any(peel_value(y).get("lid") == hsb[0]["body"]["params"][1].get("lid") for f_ in lits[0]["fields"] if f_["name"] == "specifier" for y in through_locals(peel_value(f_["e"])))
        # async fn: the parameter is re-bound inside the coroutine; accept a local of type Url that is not otherwise assigned
        if not ok and len(lits) == 1:
            v = peel_value([f_["e"] for f_ in lits[0]["fields"] if f_["name"] == "specifier"][0])
            ok = v.get("res") == "local" and tyc(F, v, "url::Url") and not [d for d in local_defs(hsb[0], v["lid"]) if d[0] in ("assign", "let")]
        R.ob("C14-d", "handle_success passes its key on unchanged", ok, "PendingInfoResponse::Module.specifier is not the key handle_success was given", hsb[0]["file"])

    # ---------------- C14-c ------------------------------------------------
    def slot_values(fnname):
        """(value, slot kinds named by the patterns that must have matched on
        the path to it) for every value the function can return; independent
        of whether the code says `match`, `if let` or `let .. else`."""
        b = F.body(fnname)
        vals = []
        _tail_values(F, b["body"]["value"], vals)
        for r in walk(b["body"]["value"]):
            if r.get("k") == "Ret" and "e" in r:
                _tail_values(F, r["e"], vals)
        out = []
        for v in vals:
            kinds = set()
            for x in guards_at(F, v):
                if x.kind == "pat" and x.pol and tyc(F, x.scrut, "graph::ModuleSlot"):
                    pt = pat_text(x.pat)
                    for kd in ("Module", "Err", "Pending"):
                        if "graph::ModuleSlot::%s" % kd in pt:
                            kinds.add(kd)
            out.append((v, kinds))
        return b, out

    b, vs = slot_values("graph::ModuleGraph::get")
    n_some = 0
    for v, kinds in vs:
        some = ctor_of(v) == "std::option::Option::Some"
        none = ctor_of(v) == "std::option::Option::None"
        n_some += some
        if not (some or none):
            R.ob("C14-c", "get returns a literal Some/None per slot kind", False, "get() returns `%s`, which the slot-kind rule cannot classify" % expr_text(v)[:40], where(v))
            continue
        R.ob("C14-c", "get: value under slot kinds %s" % sorted(kinds), some == (kinds == {"Module"}), "get() returns Some for a slot that is not a module, or None for a module", where(v))
    R.ob("C14-c", "get returns Some on some path", n_some >= 1, "shape changed: no `Some(module)` result found in ModuleGraph::get", b["file"])
    b, vs = slot_values("graph::ModuleGraph::try_get")
    n_cls = set()
    for v, kinds in vs:
        if kinds == {"Err"}:
            ok = ctor_of(v) == "std::result::Result::Err"
        elif kinds == {"Module"}:
            ok = ctor_of(v) == "std::result::Result::Ok" and ctor_of(peel(v["args"][0])) == "std::option::Option::Some"
        elif not kinds:
            ok = ctor_of(v) == "std::result::Result::Ok" and ctor_of(peel(v["args"][0])) == "std::option::Option::None"
        else:
            ok = False
        n_cls.add(tuple(sorted(kinds)))
        R.ob("C14-c", "try_get: value under slot kinds %s" % sorted(kinds), ok, "try_get maps slot kind %s to `%s`" % (sorted(kinds), expr_text(v)[:30]), where(v))
    R.ob("C14-c", "try_get distinguishes module / error / other slots", {("Err",), ("Module",), ()} <= n_cls, "shape changed: try_get no longer has a result per slot kind (found %s)" % sorted(n_cls), b["file"])
    b = F.body("graph::ModuleGraph::contains")
    # any test of the slot kind (matches!, match, if let) singles out exactly ModuleSlot::Module
    mm = [n for n in walk(b["body"]) if n["k"] == "Match" and any("graph::ModuleSlot::" in pat_text(a_["pat"]) for a_ in n["arms"])]
    mm += [n for n in walk(b["body"]) if n["k"] == "Let" and "graph::ModuleSlot::" in pat_text(n["pat"])]
    def _only_module(n):
        pats = [a_["pat"] for a_ in n["arms"]] if n["k"] == "Match" else [n["pat"]]
        vs = set()
        for pt in pats:
            vs |= set(re.findall(r"graph::ModuleSlot::\w+", pat_text(pt)))
        return vs == {"graph::ModuleSlot::Module"}
    R.ob("C14-c", "contains is true exactly for module slots", len(mm) == 1 and _only_module(mm[0]),
         "contains() no longer tests matches!(slot, ModuleSlot::Module(_))", b["file"])
    b = F.body("graph::ModuleGraph::resolve_dependency_from_dep")
    rets = [n for n in walk(b["body"]) if n["k"] == "Ret"]
    n_t = 0
    for r in rets:
        g = guards_at(F, r)
        in_types_arm = any(x.kind == "cond" and x.pol and peel(x.node).get("lid") == b["body"]["params"][2].get("lid") for x in g)
        if not in_types_arm:
            continue
        n_t += 1
        rv = peel(r.get("e", {}))
        ret_lid = peel_value(rv["args"][0]).get("lid") if ctor_of(rv) == "std::option::Option::Some" else None
        loaded = any(x.kind == "pat" and x.pol and "graph::ModuleSlot::Module" in pat_text(x.pat) and x.scrut is not None and x.scrut.get("k") == "MethodCall" and mentions_field(x.scrut, "module_slots") and peel_value(x.scrut["args"][0]).get("lid") == ret_lid and ret_lid is not None for x in g)
        R.ob("C14-c", "types module is returned only when it is loaded", loaded,
             "resolve_dependency_from_dep returns the types dependency without checking that its slot holds a module (must fall back to the code module)", where(r))
    R.floor("C14-c prefer-types early returns", n_t, 1)
