"""C12 — fast check is all-or-nothing per package, cache-transparent, deterministic.

Decides:
  a. all-or-nothing: emitted modules of a package are added to the result only
     when the package has no errors, entrypoint error entries only when it has;
     transform_package collects a module only while no error has been seen.
  b. cache entries are validated before use: `Some(package)` from
     try_get_cache_item is dominated by a successful is_cache_item_valid, which
     returns true only after comparing the source hash of every module.
  c. writer and reader hash the same thing (source text bytes of the graph's
     module, same hash function, same fallback).
  d. the cache key covers the seed, the package name@version and every
     entrypoint.
  e. recorded dependencies come from the emitted module: the module info handed
     on is computed from the transformed program, and the graph fills
     FastCheckTypeModule.dependencies from that module info; text / source map
     are carried over unchanged, also from cache entries.
  f. determinism: hash-order rule shared with C04-a over fast_check/**.
"""
from .lib import *
from .lib import _tail_values
from . import c04

EXPLANATION = (
    "Guard dominance for result collection and cache use (T5), loop-completeness of the cache validation (T8), sibling agreement "
    "of the three source-hash expressions (T12), parameter-flow into the cache-key hasher (T4), argument provenance of the module "
    "info recorded for an emitted module (T4)."
)
EXPLANATION += " " + 'Plus: a cache item is written for every module and diagnostic on every path, cache hits are published and replayed completely (emitted modules and cached diagnostics), polarity of the hash comparison.'
NOT_DECIDED = "transparency over histories of edits (needs runs); equality of emitted text across runs"
ASSUMPTIONS = ["fast_insecure_hash is a function of its input bytes"]


def hash_shape(F, e):
    """canonical description of `graph.get(spec).and_then(|m| m.source()).map(|s| fast_insecure_hash(s.as_bytes())).unwrap_or(0)`"""
    calls = []
    for x in walk(e):
        if x.get("k") in ("Call", "MethodCall"):
            fn = x.get("fn") or ""
            calls.append(fn.split("::")[-1])
    lit = [x.get("v") for x in walk(e) if x.get("k") == "Lit"]
    return sorted(calls), lit


def run(F, R, tier):
    _round6(F, R)
    bf = F.body("fast_check::build_fast_check_type_graph")
    # ---------------- C12-a ------------------------------------------------
    RES_T = "Vec<(url::Url, std::result::Result<fast_check::transform::FastCheckModule"
    ERR_T = "std::vec::Vec<fast_check::FastCheckDiagnostic>"
    rv_ = return_values(F, bf)
    res_lid = peel_value(rv_[0]).get("lid") if rv_ else None
    ext = [n for n in bf["_nodes"] if n.get("k") == "MethodCall" and n["name"] == "extend" and peel(n["recv"]).get("lid") == res_lid]
    ok_mods = [e for e in ext if peel_value(e["args"][0]).get("res") == "local" and any(mentions_call(u, ["fast_check::transform_package"]) for u in bf["_nodes"] if u.get("k") == "Call" and any(peel_value(a_).get("lid") == peel_value(e["args"][0]).get("lid") for a_ in u.get("args", [])))]
    if R.ob("C12-a", "emitted modules are appended to the result", len(ok_mods) == 1, "shape changed", bf["file"]):
        g = guards_at(F, ok_mods[0])
        ok = any(x.kind == "cond" and x.pol and x.node.get("k") == "MethodCall" and x.node["name"] == "is_empty" and ty_is(F, x.node["recv"], ERR_T) for x in g)
        R.ob("C12-a", "a package's emitted modules are published only if it has no errors", ok,
             "final_result.extend(fast_check_modules) is not dominated by errors.is_empty(): a package with diagnostics would still get emitted modules", where(ok_mods[0]))
    pushes = [n for n in bf["_nodes"] if n.get("k") == "MethodCall" and n["name"] == "push" and peel(n["recv"]).get("lid") == res_lid]
    if R.ob("C12-a", "entrypoint error entries are pushed", len(pushes) == 1, "shape changed", bf["file"]):
        g = guards_at(F, pushes[0])
        ok = any(x.kind == "cond" and not x.pol and x.node.get("name") == "is_empty" and ty_is(F, x.node["recv"], ERR_T) for x in g)
        R.ob("C12-a", "entrypoints carry the diagnostics exactly when the package has errors", ok, "error entries not guarded by !errors.is_empty()", where(pushes[0]))
        lp = [a for a in k_ancestors(pushes[0]) if a["k"] == "For"]
        R.ob("C12-a", "every entrypoint of a failing package gets the diagnostics", bool(lp) and mentions_field(lp[0]["iter"], "entrypoints"), "not a loop over package.entrypoints", where(pushes[0]))
    tp = F.body("fast_check::transform_package")
    mp = [n for n in tp["_nodes"] if n.get("k") == "MethodCall" and n["name"] == "push" and tyc(F, n["recv"], RES_T)]
    if R.ob("C12-a", "transform_package collects modules", len(mp) == 1, "shape changed", tp["file"]):
        g = guards_at(F, mp[0])
        R.ob("C12-a", "a module is collected only while the package has no error", any(x.kind == "cond" and x.pol and x.node.get("name") == "is_empty" and ty_is(F, x.node["recv"], ERR_T) for x in g),
             "fast_check_modules.push not guarded by errors.is_empty()", where(mp[0]))
    ee = [n for n in tp["_nodes"] if n.get("k") == "MethodCall" and n["name"] == "extend" and ty_is(F, n["recv"], ERR_T) and peel(n["recv"]).get("res") == "local" and any(p_.get("lid") == peel(n["recv"]).get("lid") for p_ in tp["body"]["params"])]
    R.ob("C12-a", "every module's diagnostics are accumulated", len(ee) == 1, "errors.extend missing", tp["file"])
    # range-finder diagnostics block transformation of that module
    tr = [n for n in tp["_nodes"] if callee_matches(n, ["fast_check::transform::transform"])]
    if R.ob("C12-a", "transform call found", len(tr) == 1, "shape changed", tp["file"]):
        g = guards_at(F, tr[0])
        R.ob("C12-a", "a module with tracing diagnostics is not transformed", any(x.kind == "cond" and x.pol and x.node.get("name") == "is_empty" and ty_is(F, x.node["recv"], ERR_T) and any(mentions_call(y, ["ModulePublicRanges::take_diagnostics"]) for y in through_locals(peel_value(x.node["recv"]))) for x in g), "transform not guarded by diagnostics.is_empty()", where(tr[0]))

    # ---------------- C12-b ------------------------------------------------
    tg = F.body("fast_check::range_finder::PublicRangeFinder::try_get_cache_item")
    valid = [n for n in tg["_nodes"] if callee_matches(n, ["PublicRangeFinder::is_cache_item_valid"])]
    vals = return_values(F, tg)
    somes = [v for v in vals if ctor_of(v) == "std::option::Option::Some"]
    if R.ob("C12-b", "cache lookup validates entries", len(valid) == 1 and len(somes) >= 1, "try_get_cache_item no longer calls is_cache_item_valid", tg["file"]):
        for s in somes:
            g = guards_at(F, s)
            ok = any(x.kind == "cond" and not x.pol and x.node.get("k") == "Unary" and x.node["op"] == "!" and peel(x.node["e"]) is valid[0] for x in g) or \
                any(x.holds(valid[0]) is True for x in g)
            R.ob("C12-b", "a cached package is used only after validation succeeded", ok,
                 "Some(package) is not dominated by a successful is_cache_item_valid: stale cache entries would be served", where(s))
    iv = F.body("fast_check::range_finder::PublicRangeFinder::is_cache_item_valid")
    fors = [n for n in iv["_nodes"] if n["k"] == "For"]
    rv = return_values(F, iv)
    trues = [v for v in rv if peel(v).get("v") is True]
    falses = [v for v in rv if peel(v).get("v") is False]
    ok = len(fors) == 1 and mentions_field(fors[0]["iter"], "modules") and len(trues) == 1 and not is_within(trues[0], fors[0]) and all(is_within(f, fors[0]) for f in falses) and len(falses) >= 1
    R.ob("C12-b", "validation passes only after every module's hash was compared", ok,
         "is_cache_item_valid can return true before all of cache_item.modules were checked", iv["file"])
    if fors:
        cmpn = [n for n in walk(fors[0]["body"]) if n.get("k") == "Binary" and n["op"] in ("!=", "==") and mentions_call(n, ["FastCheckCacheModuleItem::source_hash"])]
        bad, _ = must_pass(F, fors[0]["body"], lambda n: n in cmpn, exit_kinds=("fallthrough", "continue", "break"))
        R.ob("C12-b", "every cache entry kind (emitted or diagnostic) has its source hash compared", bool(cmpn) and not bad,
             "an iteration of the validation loop can finish without comparing the source hash: such entries are accepted although their source changed", where(fors[0]))
        cmp_ = [n for n in walk(fors[0]["body"]) if n.get("k") == "Binary" and n["op"] in ("!=", "==")]
        ok = len(cmp_) == 1 and mentions_call(cmp_[0], ["FastCheckCacheModuleItem::source_hash"]) and any(mentions_call(y, ["fast_insecure_hash"]) for side in ("l", "r") for y in through_locals(peel_value(cmp_[0][side])))
        R.ob("C12-b", "validation compares the current source hash with the recorded one", ok, "comparison is `%s`" % (expr_text(cmp_[0]) if cmp_ else "?"), where(fors[0]))
    # polarity: a mismatch rejects, agreement does not
    for f_ in falses:
        g = guards_at(F, f_)
        mism = any(x.kind == "cond" and x.pol and x.node.get("k") == "Binary" and x.node["op"] == "!=" and mentions_call(x.node, ["FastCheckCacheModuleItem::source_hash"]) for x in g)
        other = any(x.kind == "pat" or (x.kind == "cond" and not mentions_call(x.node, ["FastCheckCacheModuleItem::source_hash"])) for x in guards_at(F, f_, stop_at=fors[0] if fors else None))
        if any(x.kind == "cond" and x.node.get("k") == "Binary" and mentions_call(x.node, ["FastCheckCacheModuleItem::source_hash"]) for x in g):
            R.ob("C12-b", "a cache entry is rejected exactly when a source hash differs", mism,
                 "is_cache_item_valid returns false when the hashes are *equal* (and accepts entries whose source changed)", where(f_))
    # cached modules of a hit reach the result
    cext = [n for n in bf["_nodes"] if n.get("k") == "MethodCall" and n["name"] == "extend" and peel(n["recv"]).get("lid") == res_lid and mentions_field(n["args"][0], "cache_items")]
    if R.ob("C12-b", "modules served from the cache are added to the result", len(cext) == 1, "final_result.extend(package.cache_items) missing: a cache hit would yield no fast-check modules", bf["file"]):
        g = guards_at(F, cext[0])
        ok = any(x.kind == "cond" and not x.pol and x.node.get("name") == "is_empty" and mentions_field(x.node, "cache_items") for x in g)
        R.ob("C12-b", "cached modules are used exactly when the package came from the cache", ok, "guards: %s" % [x.text()[:40] for x in g], where(cext[0]))
    # every module item of a valid cache entry is replayed (emitted module or cached diagnostic)
    lpc = [n for n in tg["_nodes"] if n["k"] == "For" and mentions_field(n["iter"], "modules")]
    if R.ob("C12-b", "cache replay loop found", len(lpc) == 1, "try_get_cache_item no longer iterates over the cached modules", tg["file"]):
        pushes_ = [n for n in walk(lpc[0]["body"]) if n.get("k") == "MethodCall" and n["name"] == "push" and field_of(n["recv"]) == "cache_items"]
        bad, _ = must_pass(F, lpc[0]["body"], lambda n: n in pushes_, exit_kinds=("fallthrough", "continue", "break"))
        R.ob("C12-b", "every cached module item is replayed into the result", bool(pushes_) and not bad,
             "an iteration of the cache replay loop adds nothing (e.g. cached diagnostics are dropped): a package that failed when the cache was filled would be served as if it had no diagnostics", where(lpc[0]))
        errp = [n for n in pushes_ if any(ctor_of(x) == "std::result::Result::Err" for x in walk(n["args"][0]))]
        R.ob("C12-b", "a cached diagnostic is replayed as a diagnostic", len(errp) >= 1, "no Err(..) entry is produced from cached diagnostics", where(lpc[0]))
    # dependencies replayed from a cache hit
    deps = [n for n in tg["_nodes"] if n["k"] == "For" and mentions_field(n["iter"], "dependencies")]
    ok = len(deps) == 1 and any(callee_matches(x, ["PublicRangeFinder::add_pending_nv_no_referrer"]) for x in walk(deps[0]["body"]))
    R.ob("C12-b", "a cache hit re-queues every recorded dependency package", ok, "cached dependencies are not replayed", tg["file"])
    apn = F.body("fast_check::range_finder::PublicRangeFinder::add_pending_nv")
    fl = Flow(F, lambda n: n.get("k") == "MethodCall" and n["name"] == "insert" and field_of(n["recv"]) == "dependencies")
    fl.run(apn["body"]["value"], False)
    bad = []
    for kind, node, st in fl.exits:
        if st is False and kind in ("return", "fallthrough"):
            g = guards_at(F, node) if kind == "return" else []
            if any(x.kind == "cond" and x.pol and x.node.get("k") == "Binary" and x.node["op"] == "==" for x in g):
                continue
            bad.append(node)
    R.ob("C12-b", "the dependency list that goes into a cache entry records every referenced package of that referrer", not bad,
         "add_pending_nv can return without recording the dependency for this referrer (e.g. when the package was already seen through another referrer): a later cache hit for this referrer would not re-queue it", where(bad[0]) if bad else "")

    # a validated cache entry becomes the package's result (with this run's entrypoints)
    fdb = F.body("fast_check::range_finder::PublicRangeFinder::find")
    tgc = [n for n in fdb["_nodes"] if callee_matches(n, ["PublicRangeFinder::try_get_cache_item"])]
    hit_arms = [a_ for m_ in fdb["_nodes"] if m_.get("k") == "Match" and any(x is tgc[0] for x in walk(m_["scrut"])) for a_ in m_["arms"] if pat_text(a_["pat"]).startswith("std::option::Option::Some(")] if tgc else []
    if R.ob("C12-b", "cache lookup result is dispatched on", len(hit_arms) == 1, "find no longer matches on try_get_cache_item", fdb["file"]):
        arm = hit_arms[0]
        binds = {b_["lid"] for b_ in pat_bindings(arm["pat"])}
        ins = [n for n in walk(arm["body"]) if n.get("k") == "MethodCall" and n["name"] == "insert" and field_of(n["recv"]) == "public_ranges" and peel_value(n["args"][1]).get("lid") in binds]
        bad, _ = must_pass(F, arm["body"], lambda n: n in ins, exit_kinds=("fallthrough", "continue", "break", "return"))
        R.ob("C12-b", "a cache hit is published as the package's result on every path", len(ins) == 1 and not bad,
             "the cache-hit arm of find does not insert the cached ranges into public_ranges: a package served from the cache would get no fast-check output at all, unlike the run that filled the cache", where(arm["body"]))
        ep = [n for n in walk(arm["body"]) if n["k"] == "Assign" and field_of(n["l"]) == "entrypoints" and peel_value(peel(n["l"]).get("e", {})).get("lid") in binds]
        R.ob("C12-b", "a cache hit carries this run's entrypoints", len(ep) == 1, "entrypoints of the cached ranges are not set", where(arm["body"]))

    # ---------------- C12-g (cache entries are complete) ---------------------
    ITEM_T = "FastCheckCacheModuleItem"
    cpush = [n for n in bf["_nodes"] if n.get("k") == "MethodCall" and n["name"] == "push" and tyc(F, n["recv"], ITEM_T) and peel(n["recv"]).get("res") == "local"]
    R.floor("C12-g cache item pushes", len(cpush), 2)
    loops = []
    for n in cpush:
        lp = [a for a in k_ancestors(n) if a["k"] == "For"]
        if lp and lp[0] not in loops and is_within(lp[0], bf["body"]["value"]):
            # innermost loop around the push that is itself inside the package loop
            loops.append(lp[0])
    R.floor("C12-g cache fill loops", len(loops), 2)
    for lp in loops:
        mine = [n for n in cpush if is_within(n, lp["body"])]
        bad, _ = must_pass(F, lp["body"], lambda n: n in mine, exit_kinds=("fallthrough", "continue", "break"))
        R.ob("C12-g", "every module / diagnostic of a transformed package gets a cache item", not bad,
             "an iteration of the cache fill loop can finish without pushing a cache item: the stored entry would lack that module, and a later cache hit would reproduce a different result than the run that filled the cache", where(lp))
    for n in cpush:
        v = peel(n["args"][0])
        item = peel(v["args"][1]) if v.get("k") == "Tup" and len(v.get("args", [])) == 2 else (peel(v["elems"][1]) if v.get("k") == "Tup" and len(v.get("elems", [])) == 2 else None)
        if item is None:
            continue
        g = guards_at(F, n)
        no_err = any(x.kind == "cond" and x.pol and x.node.get("name") == "is_empty" and ty_is(F, x.node["recv"], ERR_T) for x in g)
        if ctor_of(item) == "fast_check::cache::FastCheckCacheModuleItem::Info":
            R.ob("C12-g", "an emitted module is cached only for a package without errors", no_err, "Info cache item pushed without errors.is_empty()", where(n))
    sets = [n for n in bf["_nodes"] if n.get("k") == "MethodCall" and n["name"] == "set" and tyc(F, n["recv"], "FastCheckCache")]
    if R.ob("C12-g", "the cache is filled after a transform", len(sets) == 1, "fast_check_cache.set missing", bf["file"]):
        g = guards_at(F, sets[0])
        conds = [x for x in g if x.kind == "cond" and not x.derived]
        ok = len(conds) == 1 and conds[0].pol and conds[0].node.get("name") == "is_empty" and mentions_field(conds[0].node, "cache_items")
        R.ob("C12-g", "every freshly transformed package is stored (only cache hits are not re-stored)", ok, "cache fill is additionally guarded by %s" % [x.text()[:50] for x in conds], where(sets[0]))

    # ---------------- C12-c ------------------------------------------------
    shapes = []
    for b in (bf, iv):
        for n in b["_nodes"]:
            if n.get("k") == "LetStmt" and "init" in n and mentions_call(n["init"], ["fast_insecure_hash"]):
                shapes.append((b["path"].split("::")[-1], n, hash_shape(F, n["init"])))
    R.floor("C12-c source-hash computations", len(shapes), 2)
    if shapes:
        ref = shapes[-1][2]
        for nm, n, sh in shapes:
            R.ob("C12-c", "source hash in %s is computed like the validator's" % nm, sh == ref and "fast_insecure_hash" in sh[0] and "source" in sh[0] and "as_bytes" in sh[0],
                 "writer/reader hash disagreement: %s vs %s — cache entries would never (or always) validate" % (sh, ref), where(n))
    # ---------------- C12-d ------------------------------------------------
    kb = F.body("fast_check::cache::FastCheckCacheKey::build")
    hashed = [n for n in kb["_nodes"] if n.get("k") == "MethodCall" and n["name"] == "hash"]
    params = [p.get("name") for p in kb["body"]["params"]]
    covered = set()
    for h in hashed:
        r = peel_value(h["recv"])
        if r.get("res") == "local":
            nm = r.get("name")
            if nm in params:
                covered.add(nm)
            else:
                # loop variable over a parameter
                for a in k_ancestors(h):
                    if a["k"] == "For" and peel_value(a["iter"]).get("name") in params:
                        covered.add(peel_value(a["iter"])["name"])
    for p in params:
        R.ob("C12-d", "cache key covers `%s`" % p, p in covered, "parameter `%s` does not flow into the key hash: entries made for another %s would be reused" % (p, p), kb["file"])
    for b in (bf, tg):
        kc = [n for n in b["_nodes"] if callee_matches(n, ["FastCheckCacheKey::build"])]
        for k in kc:
            a = [expr_text(x) for x in k["args"]]
            ok = "hash_seed" in a[0] and "nv" in a[1] and "entrypoints" in a[2]
            R.ob("C12-d", "key built from (seed, nv, entrypoints) in %s" % b["path"].split("::")[-1], ok, "key args %s" % a, where(k))
    # ---------------- C12-e ------------------------------------------------
    tm = F.body("fast_check::transform::transform")
    mi = [n for n in tm["_nodes"] if callee_matches(n, ["ParserModuleAnalyzer::module_info_from_swc"])]
    if R.ob("C12-e", "module info of the emitted module is computed", len(mi) == 1, "shape changed", tm["file"]):
        prog = mi[0]["args"][1]
        S = Slicer(F)
        mods = [x for x in walk(prog) if x.get("k") == "Path" and x.get("res") == "local"]
        ok = False
        for m in mods:
            for d in local_defs(tm, m["lid"]):
                if d[1] is not None and any(callee_matches(x, ["FastCheckTransformer::transform"]) for x in walk(d[1])):
                    ok = True
        R.ob("C12-e", "recorded dependencies are those of the transformed program", ok,
             "module_info_from_swc is given `%s`, not the module returned by the transformer: dependencies of removed imports would be recorded" % expr_text(prog), where(mi[0]))
        st = [n for n in tm["_nodes"] if n["k"] == "Struct" and n.get("adt") == "fast_check::transform::FastCheckModule"]
        if st:
            f = {x["name"]: x["e"] for x in st[0]["fields"]}
            mv = peel_value(f["module_info"])
            R.ob("C12-e", "that module info is what the result carries", mv.get("res") == "local" and any(d[1] is mi[0] or (d[1] is not None and is_within(mi[0], d[1])) for d in local_defs(tm, mv["lid"])), "module_info = %s" % expr_text(f["module_info"]), where(st[0]))
    gb = F.body("graph::ModuleGraph::build_fast_check_type_graph")
    fm = [n for n in gb["_nodes"] if callee_matches(n, ["graph::fill_module_dependencies"])]
    if R.ob("C12-e", "graph fills fast-check dependencies", len(fm) == 1, "shape changed", gb["file"]):
        a = fm[0]["args"][2]
        R.ob("C12-e", "dependencies are resolved from the emitted module's info", mentions_field(a, "module_info", "fast_check::transform::FastCheckModule"), "dependencies come from `%s`" % expr_text(a)[:60], where(fm[0]))
        R.ob("C12-e", "they are resolved as a types-only view", ctor_of(peel(fm[0]["args"][0])) == "graph::GraphKind::TypesOnly", "graph kind %s" % expr_text(fm[0]["args"][0]), where(fm[0]))
    st = [n for n in gb["_nodes"] if n["k"] == "Struct" and n.get("adt") == "graph::FastCheckTypeModule"]
    if R.ob("C12-e", "FastCheckTypeModule literal found", len(st) == 1, "shape changed", gb["file"]):
        f = {x["name"]: peel_value(x["e"]) for x in st[0]["fields"]}
        ok = f["source"].get("field") == "text" and f["source_map"].get("field") == "source_map" and peel_value(f["source"]["e"]).get("lid") == peel_value(f["source_map"]["e"]).get("lid")
        R.ob("C12-e", "text and source map of one emitted module stay together", ok, "source=%s source_map=%s" % (expr_text(f["source"]), expr_text(f["source_map"])), where(st[0]))
    # cache read carries over text / source map / module info of the same entry
    ci = [n for n in tg["_nodes"] if n["k"] == "Struct" and n.get("adt") == "fast_check::transform::FastCheckModule"]
    for c in ci:
        f = {x["name"]: peel_value(x["e"]) for x in c["fields"]}
        ok = f["text"].get("field") == "text" and f["source_map"].get("field") == "source_map" and peel_value(f["text"]["e"]).get("lid") == peel_value(f["source_map"]["e"]).get("lid")
        R.ob("C12-e", "cached text and source map are restored from the same entry", ok, "text=%s source_map=%s" % (expr_text(f["text"]), expr_text(f["source_map"])), where(c))
    # cache write stores what was emitted
    wi = [n for n in bf["_nodes"] if n["k"] == "Struct" and (n.get("adt") or "").endswith("FastCheckCacheModuleItemInfo")]
    for w in wi:
        f = {x["name"]: x["e"] for x in w["fields"]}
        ok = mentions_field(f["text"], "text", "fast_check::transform::FastCheckModule") and mentions_field(f["source_map"], "source_map", "fast_check::transform::FastCheckModule") and mentions_field(f["module_info"], "module_info", "fast_check::transform::FastCheckModule")
        R.ob("C12-e", "the cache stores the emitted text, source map and module info", ok, "cache item fields: %s" % {k: expr_text(v)[:30] for k, v in f.items()}, where(w))
    # ---------------- C12-f ------------------------------------------------
    n = 0
    for b in F.bodies:
        if not b["file"].startswith("src/fast_check/") or b.get("derived"):
            continue
        for x in b["_nodes"]:
            if x["k"] == "For" and c04.HASH_COLL.match(c04.tys(F, x["iter"])):
                n += 1
                locs = {bb["lid"] for bb in pat_bindings(x["pat"])}
                bad = c04.classify_body(F, x["body"], locs)
                ex = c04.EXEMPT.get((b["path"], expr_text(x["iter"])))
                R.ob("C12-f", "hash-ordered loop in %s" % b["path"], not bad or bool(ex), "order-sensitive consumer: %s" % bad[:2], where(x))
            elif x["k"] == "MethodCall" and c04.HASH_COLL.match(F.tystr(x.get("recv_ty")) or "") and x["name"] in c04.ITER_METHODS:
                n += 1
                verdict, detail = c04.consumer(F, x)
                ex = c04.EXEMPT.get((b["path"], expr_text(x)))
                R.ob("C12-f", "hash iteration in %s" % b["path"], verdict == "insensitive" or bool(ex), detail, where(x))
    R.analysed["fast_check_hash_iterations"] = n


def _round6(F, R):
    # C12-b: nothing recorded in a cache entry has any effect before the entry
    # has been validated against the current sources
    tg = [x for x in F.bodies if x["path"].endswith("PublicRangeFinder::try_get_cache_item")]
    if not R.ob("C12-b", "cache lookup found", len(tg) == 1, "try_get_cache_item not found"):
        return
    tg = tg[0]
    eff = [n for n in tg["_nodes"] if n.get("k") in ("MethodCall", "Call") and ((n.get("fn") or "").endswith("add_pending_nv_no_referrer") or (n.get("fn") or "").endswith("add_pending_nv"))]
    R.floor("C12-b effects of a cache entry's dependency list", len(eff), 1)
    for n in eff:
        g = guards_at(F, n)
        ok = any(x.kind == "cond" and x.pol and mentions_call(x.node, ["is_cache_item_valid"]) for x in g)
        R.ob("C12-b", "dependencies of a cache entry are queued only after the entry was validated", ok,
             "try_get_cache_item queues the packages recorded in a cache entry before `is_cache_item_valid` accepted it: a stale entry (sources changed) still makes its old dependencies get fast-check output, so a run with a stale cache differs from a run without cache",
             where(n), key="C12|C12-b|stale-entry-dependencies-queued")
