"""C13 — module information survives serialisation; manifest shortcut equals parsing.

Decides:
  a. serde schema agreement over every type reachable from analysis::ModuleInfo:
     both directions exist; every `skip_serializing_if = P` field has `default`
     and P holds for the Default value; no one-sided skip / rename; untagged
     enum variants have pairwise distinct JSON shapes; tagged / flattened
     content has no key collisions; the hand-written array serialiser of
     PositionRange emits elements in the field order the derived reader uses.
  b. the v1 -> v2 manifest upgrade inserts the key the v2 reader expects.
  c. both arms of the manifest shortcut in load_jsr_subpath parse with the same
     options; the provided-info arm defers the content load and the deferred
     load fills in the source.
"""
import re
from .lib import *
from .lib import _tail_values

EXPLANATION = (
    "Writer/reader agreement decided from the serde attributes in the expanded AST and the ADT declarations (T9): default-vs-skip "
    "predicate table, key-collision and shape-distinctness checks, order agreement of the hand-written tuple serialiser with the "
    "derived positional reader (T14), literal-vs-declaration agreement of the v1->v2 upgrade key (T14), and sibling agreement of "
    "the two ParseModuleAndSourceInfoOptions literals of the manifest shortcut (T12)."
)
EXPLANATION += " " + 'Plus: the in-flight marker of the manifest shortcut, the v1 pragma is read from the last leading comment in recorded order.'
NOT_DECIDED = "value-level round trip for arbitrary module infos; equality of the two graphs"
CONFIGS = ["default", "nofastcheck"]  # thorough tier also analyses the build without fast_check / symbols
ASSUMPTIONS = ["serde derive semantics for rename_all / tag / untagged / flatten / default / skip_serializing_if as documented"]

ROOT = "analysis::ModuleInfo"
STD_EMPTY_PREDICATES = {"Vec::is_empty", "Option::is_none", "BTreeSet::is_empty", "IndexMap::is_empty", "BTreeMap::is_empty", "HashMap::is_empty", "String::is_empty"}


def camel(s):
    parts = s.split("_")
    return parts[0] + "".join(p[:1].upper() + p[1:] for p in parts[1:])


def serde_args(attrs):
    """flatten all #[serde(...)] attribute strings into {key: value or True}"""
    out = {}
    for a in attrs:
        m = re.match(r"#\[serde\((.*)\)\]$", a, re.S)
        if not m:
            continue
        body = m.group(1)
        # split on commas not inside quotes / parens
        items = []
        depth = 0
        cur = ""
        inq = False
        for ch in body:
            if ch == '"':
                inq = not inq
            if not inq:
                if ch == "(":
                    depth += 1
                elif ch == ")":
                    depth -= 1
                elif ch == "," and depth == 0:
                    items.append(cur.strip())
                    cur = ""
                    continue
            cur += ch
        if cur.strip():
            items.append(cur.strip())
        for it in items:
            if "=" in it and not it.startswith("rename("):
                k, v = it.split("=", 1)
                out[k.strip()] = v.strip().strip('"')
            else:
                out[it] = True
    return out


def closure(F):
    seen = []
    stack = [ROOT]
    while stack:
        p = stack.pop()
        if p in seen or p not in F.adts:
            continue
        seen.append(p)
        for v in F.adts[p]["variants"]:
            for f in v["fields"]:
                t = F.types[f["ty"]]
                for tok in re.findall(r"[A-Za-z_][\w:]*", t):
                    if tok in F.adts and tok not in seen:
                        stack.append(tok)
    return seen


def default_variant(F, path):
    a = F.ast_adts.get(path)
    if not a or a["kind"] != "enum":
        return None
    for v in a["variants"]:
        if any(x.strip() == "#[default]" for x in v["attrs"]):
            return v["name"]
    return None


def json_shape(F, ast_variant, adt_variant):
    if ast_variant["shape"] == "unit":
        return "null"
    if ast_variant["shape"] == "struct":
        return "map"
    if len(adt_variant["fields"]) != 1:
        return "seq"
    t = F.types[adt_variant["fields"][0]["ty"]]
    if t in ("std::string::String", "&str") or t.startswith("std::sync::Arc<str"):
        return "string"
    if t.startswith("std::vec::Vec<") or t.startswith("[") or t.startswith("std::collections::BTreeSet") or t.startswith("std::collections::HashSet"):
        return "seq"
    if t == "bool":
        return "bool"
    if re.match(r"^(u|i)(8|16|32|64|128|size)$|^f(32|64)$", t):
        return "number"
    if t.startswith("std::option::Option<"):
        return "null|inner"
    if t == "graph::PositionRange":
        return "seq"
    return "map"


def field_names(F, path, direction="ser"):
    """effective serialized key names of a struct's fields (flatten expanded)."""
    ast = F.ast_adts.get(path)
    if not ast or ast["kind"] != "struct":
        return []
    ca = serde_args(ast["attrs"])
    out = []
    for f in ast["fields"]:
        fa = serde_args(f["attrs"])
        if "flatten" in fa:
            inner = [p for p in F.adts if p.split("::")[-1] == re.sub(r"<.*", "", f["ty"]).split("::")[-1]]
            if inner:
                out += field_names(F, inner[0], direction)
            continue
        if fa.get("skip") or (direction == "ser" and fa.get("skip_serializing") is True):
            continue
        name = fa.get("rename") if isinstance(fa.get("rename"), str) else (camel(f["name"]) if ca.get("rename_all") == "camelCase" else f["name"])
        out.append(name)
    return out


def run(F, R, tier):
    types = closure(F)
    R.floor("C13-a types reachable from ModuleInfo", len(types), 14)
    R.analysed["module_info_types"] = types
    n_skipif = 0
    for p in types:
        a = F.adts[p]
        ast = F.ast_adts.get(p)
        if ast is None:
            R.anchor_lost("C13-a", "no AST attributes for %s" % p)
            continue
        traits = {i["trait"].split("::")[-1] for i in a["impls"]}
        R.ob("C13-a", "%s can be written and read (Serialize + Deserialize)" % p, {"Serialize", "Deserialize"} <= traits,
             "%s implements %s only: module info containing it cannot round-trip" % (p, sorted(traits & {"Serialize", "Deserialize"})), a["file"])
        ca = serde_args(ast["attrs"])
        for k in ca:
            if k.startswith("rename(") or k.startswith("rename_all("):
                R.violation("C13-a", "%s container rename" % p, "one-sided rename `%s` on %s: writer and reader use different keys" % (k, p), a["file"])
        members = []
        if ast["kind"] == "struct":
            members = [(None, f) for f in ast["fields"]]
        else:
            for v in ast["variants"]:
                va = serde_args(v["attrs"])
                for k in va:
                    if k.startswith("rename(") or k in ("skip_serializing", "skip_deserializing"):
                        R.violation("C13-a", "%s::%s" % (p, v["name"]), "one-sided `%s` on variant %s::%s" % (k, p, v["name"]), a["file"])
                members += [(v, f) for f in v["fields"]]
        for v, f in members:
            fa = serde_args(f["attrs"])
            where_ = "%s%s.%s" % (p, "::" + v["name"] if v else "", f["name"])
            for k in fa:
                if k.startswith("rename("):
                    R.violation("C13-a", where_ + " rename", "one-sided rename `%s` on %s" % (k, where_), a["file"])
            if fa.get("skip_serializing") is True and "default" not in fa and not f["ty"].startswith("Option<"):
                R.violation("C13-a", where_ + " skip", "%s is never written but required when reading (skip_serializing without default)" % where_, a["file"])
            if fa.get("skip_deserializing") is True and not (fa.get("skip_serializing") is True):
                R.violation("C13-a", where_ + " skip", "%s is written but ignored when reading (skip_deserializing)" % where_, a["file"])
            pred = fa.get("skip_serializing_if")
            if not pred:
                continue
            n_skipif += 1
            R.ob("C13-a", "%s: omitted-when-%s field has a read default" % (where_, pred), "default" in fa,
                 "%s is omitted by the writer when `%s` holds but has no #[serde(default)]: reading the output back fails with a missing field" % (where_, pred), a["file"])
            # predicate holds exactly for the Default value
            ok = None
            why = ""
            base = re.sub(r"<.*", "", f["ty"])
            if pred in STD_EMPTY_PREDICATES:
                want = pred.split("::")[0]
                ok = base.split("::")[-1] == want
                why = "predicate %s applied to a field of type %s" % (pred, f["ty"])
            elif pred == "is_false" or pred.endswith("::is_false"):
                ok = f["ty"] == "bool"
                b = [x for x in F.bodies if x["path"].endswith("analysis::is_false") or x["path"] == "analysis::is_false"]
                if ok and b:
                    v_ = return_values(F, b[0])
                    ok = len(v_) == 1 and v_[0].get("k") == "Unary" and v_[0]["op"] == "!"
                why = "is_false must be `!v` on a bool"
            else:
                # local predicate: matches!(self, V) or *x == V  where V is the #[default] variant of the field type
                cand = [x for x in F.bodies if x["path"].endswith("::" + pred) or x["path"] == pred or x["path"].endswith("::" + pred.split("::")[-1]) and pred.split("::")[0] in x["path"]]
                fty = [q for q in F.adts if q.split("::")[-1] == base.split("::")[-1]]
                dv = default_variant(F, fty[0]) if fty else None
                if cand and dv:
                    top = cand[0]["body"]["value"]
                    while peel(top).get("k") == "Block" and "expr" in peel(top) and not peel(top)["stmts"]:
                        top = peel(top)["expr"]
                    vs = [top]
                    tested = None
                    for e in vs:
                        e = peel(e)
                        if e.get("k") == "Match" and "matches" in (e.get("mac") or []):
                            pv, _ = pat_variants(e["arms"][0]["pat"])
                            tested = sorted(pv)[0].split("::")[-1] if len(pv) == 1 else None
                        elif e.get("k") == "Binary" and e["op"] == "==":
                            c = ctor_of(peel(e["r"])) or ctor_of(peel(e["l"]))
                            tested = c.split("::")[-1] if c else None
                    ok = tested == dv
                    why = "predicate %s tests variant %s, the type's #[default] variant is %s" % (pred, tested, dv)
                else:
                    ok = False
                    why = "cannot analyse predicate %s (no body or no #[default] variant on %s)" % (pred, f["ty"])
            R.ob("C13-a", "%s: `%s` holds exactly for the value the reader defaults to" % (where_, pred), bool(ok),
                 "%s: %s — a value omitted by the writer would be read back as a different value" % (where_, why), a["file"])
        # enum representations
        if ast["kind"] == "enum":
            if ca.get("untagged"):
                shapes = {}
                for av, hv in zip(ast["variants"], a["variants"]):
                    shapes.setdefault(json_shape(F, av, hv), []).append(av["name"])
                dup = {k: v for k, v in shapes.items() if len(v) > 1}
                R.ob("C13-a", "untagged %s: variants have pairwise distinct JSON shapes" % p, not dup,
                     "untagged enum %s has variants %s with the same JSON shape: the reader picks the first, changing the value" % (p, dup), a["file"])
            tag = ca.get("tag")
            if isinstance(tag, str):
                for av, hv in zip(ast["variants"], a["variants"]):
                    names = []
                    if av["shape"] == "struct":
                        va = serde_args(av["attrs"])
                        for f in av["fields"]:
                            fa = serde_args(f["attrs"])
                            if "flatten" in fa:
                                inner = [q for q in F.adts if q.split("::")[-1] == re.sub(r"<.*", "", f["ty"]).split("::")[-1]]
                                names += field_names(F, inner[0]) if inner else []
                            else:
                                names.append(fa["rename"] if isinstance(fa.get("rename"), str) else (camel(f["name"]) if (va.get("rename_all") or ca.get("rename_all")) == "camelCase" else f["name"]))
                    elif av["shape"] == "tuple" and len(hv["fields"]) == 1:
                        t = F.types[hv["fields"][0]["ty"]]
                        if t in F.adts:
                            names = field_names(F, t)
                            R.ob("C13-a", "internally tagged %s::%s wraps a map-like type" % (p, av["name"]), F.adts[t]["kind"] == "struct" and t != "graph::PositionRange", "newtype variant of a tagged enum wraps %s" % t, a["file"])
                    coll = [n for n in names if n == tag] + [n for n in set(names) if names.count(n) > 1]
                    R.ob("C13-a", "tagged %s::%s: no key collides with the tag or a sibling" % (p, av["name"]), not coll, "keys %s collide (tag `%s`)" % (coll, tag), a["file"])
        else:
            names = field_names(F, p)
            dup = [n for n in set(names) if names.count(n) > 1]
            R.ob("C13-a", "%s: serialized keys are distinct (incl. flattened content)" % p, not dup, "duplicate keys %s" % dup, a["file"])
            # reader and writer agree on key names (deserialize side ignores skip_serializing)
    R.floor("C13-a skip_serializing_if fields", n_skipif, 14)
    # hand-written array serialiser of PositionRange
    pr = F.adt("graph::PositionRange")
    ser = [b for b in F.bodies if b["path"] == "<graph::PositionRange as analysis::_::_serde::Serialize>::serialize" or (b.get("self_adt") == "graph::PositionRange" and (b.get("impl_trait") or "").endswith("Serialize"))]
    if R.ob("C13-a", "hand-written Serialize for PositionRange found", len(ser) == 1, "shape changed", pr["file"]):
        order = [f["name"] for f in pr["variants"][0]["fields"]]
        el = [n for n in ser[0]["_nodes"] if n.get("k") == "MethodCall" and n["name"] == "serialize_element"]
        el.sort(key=lambda n: n["id"])
        got = []
        for e in el:
            fl = [x["field"] for x in walk(e["args"][0]) if x.get("k") == "Field" and x.get("adt") == "graph::PositionRange"]
            got.append(fl[0] if fl else "?")
        R.ob("C13-a", "PositionRange array order equals the declaration order read positionally by the derived Deserialize", got == order,
             "writer emits %s, reader expects %s" % (got, order), ser[0]["file"])
        tup = [n for n in ser[0]["_nodes"] if n.get("k") == "MethodCall" and n["name"] == "serialize_tuple"]
        R.ob("C13-a", "PositionRange is written as a fixed 2-tuple", len(tup) == 1 and peel(tup[0]["args"][0]).get("v") == len(order), "tuple length changed", ser[0]["file"])
    ps = [b for b in F.bodies if "PositionSerializer" in b["path"] and b["path"].endswith("::serialize")]
    if R.ob("C13-a", "inner position serializer found", len(ps) == 1, "shape changed", pr["file"]):
        order = [f["name"] for f in F.adt("graph::Position")["variants"][0]["fields"]]
        el = [n for n in ps[0]["_nodes"] if n.get("k") == "MethodCall" and n["name"] == "serialize_element"]
        el.sort(key=lambda n: n["id"])
        got = []
        for e in el:
            fl = [x["field"] for x in walk(e["args"][0]) if x.get("k") == "Field" and x.get("adt") == "graph::Position"]
            got.append(fl[0] if fl else "?")
        R.ob("C13-a", "Position array order equals its declaration order", got == order, "writer emits %s, reader expects %s" % (got, order), ps[0]["file"])

    # ---------------- C13-b ------------------------------------------------
    up = F.body("analysis::module_graph_1_to_2")
    ins = [n for n in up["_nodes"] if n.get("k") == "MethodCall" and n["name"] == "insert" and any(x.get("k") == "Lit" and x.get("lk") == "str" for x in walk(n["args"][0]))]
    if R.ob("C13-b", "upgrade inserts a key", len(ins) == 1, "shape changed", up["file"]):
        lit = [x for x in walk(ins[0]["args"][0]) if x.get("k") == "Lit"][0]["v"]
        for desc in ("analysis::StaticDependencyDescriptor", "analysis::DynamicDependencyDescriptor"):
            ast = F.ast_adt(desc)
            ca = serde_args(ast["attrs"])
            f = [x for x in ast["fields"] if x["name"] == "types_specifier"]
            want = None
            if f:
                fa = serde_args(f[0]["attrs"])
                want = fa["rename"] if isinstance(fa.get("rename"), str) else (camel("types_specifier") if ca.get("rename_all") == "camelCase" else "types_specifier")
            R.ob("C13-b", "v1->v2 upgrade key equals the serde name of %s.types_specifier" % desc.split("::")[-1], lit == want,
                 "upgrade inserts `%s`, the v2 reader expects `%s`: @deno-types information of old manifests is lost" % (lit, want), where(ins[0]))
        val = ins[0]["args"][1]
        R.ob("C13-b", "the inserted value is the serialised SpecifierWithRange", any((x.get("fn") or "").endswith("serde_json::to_value") for x in walk(val)), "value = %s" % expr_text(val), where(ins[0]))
    # Comment helper fields == v1 keys read
    cm = [p for p in F.ast_adts if p == "analysis::Comment"]
    adt_ = [b for b in F.bodies if b["path"].endswith("module_graph_1_to_2::analyze_deno_types")]
    if R.ob("C13-b", "v1 pragma reader found", len(adt_) == 1, "analyze_deno_types moved", up["file"]):
        pick = [n for n in adt_[0]["_nodes"] if n.get("k") == "MethodCall" and n["name"] in ("last", "first", "get", "iter", "nth") and peel_value(n["recv"]).get("lid") == adt_[0]["body"]["params"][0].get("lid")]
        R.ob("C13-b", "a v1 `@deno-types` pragma is read from the comment directly above the import", len(pick) == 1 and pick[0]["name"] == "last",
             "analyze_deno_types picks `%s` of the leading comments: only the last leading comment is adjacent to the import, so an unrelated earlier comment would supply (or hide) the types specifier and the upgraded module info differs from a fresh analysis" % (expr_text(pick[0])[:40] if pick else "?"), adt_[0]["file"])
    reord = [n for n in up["_nodes"] if n.get("k") == "MethodCall" and n["name"] in ("rev", "reverse", "sort", "sort_by", "sort_by_key", "sort_unstable", "swap")]
    R.ob("C13-b", "the upgrade reads v1 arrays in their recorded order", not reord, "module_graph_1_to_2 reorders what it reads (`%s`): `last leading comment` would no longer be the comment adjacent to the import" % (expr_text(reord[0])[:40] if reord else ""), where(reord[0]) if reord else "")
    if R.ob("C13-b", "v1 Comment helper found", len(cm) == 1, "shape changed", up["file"]):
        names = field_names(F, cm[0])
        R.ob("C13-b", "v1 leading comments are read as {text, range}", sorted(names) == ["range", "text"], "Comment keys are %s" % names, up["file"])
    keys = sorted({x["v"] for x in up["_nodes"] if x.get("k") == "Lit" and x.get("lk") == "str"})
    R.ob("C13-b", "v1 keys read by the upgrade", {"dependencies", "leadingComments", "typesSpecifier"} <= set(keys), "string keys in upgrade: %s" % keys, up["file"])
    # every dependency of an old manifest is upgraded: nothing may leave the per-dependency loop early
    fl_ = [n for n in up["_nodes"] if n["k"] == "For" and any(x.get("k") == "Lit" and x.get("v") == "leadingComments" for x in walk(n["body"]))]
    if R.ob("C13-b", "per-dependency upgrade loop found", len(fl_) == 1, "shape changed", up["file"]):
        early = [n for n in walk(fl_[0]["body"], into_closures=False) if n["k"] in ("Ret",) or (n["k"] == "Break" and n.get("target") == fl_[0].get("h"))]
        R.ob("C13-b", "the upgrade visits every dependency (no early exit from the loop)", not early,
             "`%s` inside the per-dependency loop of module_graph_1_to_2: dependencies after the first one without leading comments keep their v1 shape and lose their @deno-types information" % (expr_text(early[0]) if early else ""), where(early[0]) if early else "")
    mi = F.body("packages::JsrPackageVersionInfo::module_info")
    R.ob("C13-b", "moduleGraph1 manifests go through the upgrade", any(callee_matches(n, ["analysis::module_graph_1_to_2"]) for n in mi["_nodes"]), "module_info() no longer upgrades moduleGraph1 entries", mi["file"])

    # ---------------- C13-c ------------------------------------------------
    # the in-flight marker of a load records whether it is an asset load; the manifest
    # shortcut only serves module loads, so its marker says "module"
    pend_lits = [n for n in F.all_nodes() if n["k"] == "Struct" and (n.get("variant") or "").endswith("ModuleSlot::Pending") and not n["_top"].get("derived") and "::test" not in n["_top"]["path"]]
    R.floor("C13-c in-flight markers", len(pend_lits), 2)
    for n in pend_lits:
        v = peel([f_["e"] for f_ in n["fields"] if f_["name"] == "is_asset"][0])
        if n["_top"]["path"].endswith("load_jsr_subpath"):
            ok = v.get("k") == "Lit" and v.get("v") is False
            why = "the manifest shortcut marks its in-flight entry `is_asset: %s`" % expr_text(v)
        else:
            ok = v.get("res") == "local" and tyc(F, v, "bool")
            why = "in-flight marker uses `%s` instead of the request's is_asset" % expr_text(v)
        R.ob("C13-c", "the in-flight marker of %s says whether the load is an asset load" % n["_top"]["path"].split("::")[-1], ok,
             why + ": a later code import of the same specifier is then treated as (not) needing a reload, so the graph built through the manifest shortcut differs from the one built from loaded sources", where(n))

    ls = F.body("graph::Builder::load_jsr_subpath")
    lits = [n for n in ls["_nodes"] if n["k"] == "Struct" and n.get("adt") == "graph::ParseModuleAndSourceInfoOptions"]
    if R.ob("C13-c", "two parse sites in the manifest shortcut", len(lits) == 2, "found %d ParseModuleAndSourceInfoOptions literals" % len(lits), ls["file"]):
        a, b = [{x["name"]: x["e"] for x in l["fields"]} for l in lits]
        for fld in ("maybe_attribute_type", "maybe_referrer", "maybe_source_phase_referrer", "is_root", "is_dynamic_branch", "unstable_config_imports"):
            R.ob("C13-c", "both arms parse with the same %s" % fld, expr_text(a[fld]) == expr_text(b[fld]),
                 "provided-info arm uses `%s`, loaded arm uses `%s`" % (expr_text(a[fld]), expr_text(b[fld])), where(lits[0]))
    pm = [n for n in ls["_nodes"] if n["k"] == "Struct" and n.get("variant") == "graph::PendingInfoResponse::Module"]
    pend = []
    for n in pm:
        f = {x["name"]: peel(x["e"]) for x in n["fields"]}
        g = guards_at(F, n, stop_at_async=False)
        in_none = any(x.kind == "pat" and x.pol and pat_text(x.pat) == "std::result::Result::Ok(std::option::Option::None)" for x in g)
        if in_none:
            pend.append(n)
            R.ob("C13-c", "the provided-info arm defers the content load", ctor_of(f["pending_load"]) == "std::option::Option::Some", "pending_load = %s: the module would keep an empty source" % expr_text(f["pending_load"]), where(n))
        else:
            R.ob("C13-c", "the loaded arm has nothing to defer", ctor_of(f["pending_load"]) == "std::option::Option::None", "pending_load = %s" % expr_text(f["pending_load"]), where(n))
    R.ob("C13-c", "provided-info arm found", len(pend) == 1, "no PendingInfoResponse::Module under `Ok(None)`", ls["file"])
    # the shortcut is only taken for module loads (the parsing path records an
    # asset import as an external entry and never follows its imports)
    sc = [n for n in ls["_nodes"] if callee_matches(n, ["JsrPackageVersionInfo::module_info"])]
    if R.ob("C13-c", "manifest shortcut branch found", len(sc) >= 1, "load_jsr_subpath no longer consults the manifest's embedded module info", ls["file"]):
        for c in sc:
            g = guards_at(F, c)
            gated = any(x.kind == "cond" and not x.pol and field_of(x.node) == "is_asset" for x in g)
            for a in k_ancestors(c):
                if a.get("k") == "MethodCall" and a["name"] in ("then", "then_some") and peel(a["recv"]).get("k") == "Unary" and peel(a["recv"])["op"] == "!" and field_of(peel(a["recv"])["e"]) == "is_asset":
                    gated = True
            R.ob("C13-c", "embedded module info is only used for module (non-asset) loads", gated,
                 "the manifest shortcut is taken for asset imports too: a file imported as text/bytes would become a full module with its imports followed, unlike the parsing path", where(c))
    hc = F.body("graph::Builder::handle_jsr_registry_pending_content_loads")
    src = [n for n in hc["_nodes"] if n["k"] == "Assign" and field_of(n["l"]) == "source"]
    R.ob("C13-c", "the deferred load fills in the source of Js / Json / Wasm modules", len(src) >= 3, "only %d `module.source = ..` assignments" % len(src), hc["file"])
    an = [b for b in F.bodies if "ProvidedModuleAnalyzer" in b["path"] and b["path"].endswith("::analyze")]
    R.ob("C13-c", "the provided analyzer returns the embedded info", len(an) == 1 and any(n.get("k") == "MethodCall" and n["name"] == "take" for n in an[0]["_nodes"]), "shape changed", ls["file"])

    # ---------------- later (round 6) ---------------------------------------
    # C13-m: a manifest carrying both sections is read from moduleGraph2; the
    # legacy moduleGraph1 section (which cannot express @ts-types etc.) is only
    # consulted when moduleGraph2 is absent, and only it is upgraded
    mi = F.body("packages::JsrPackageVersionInfo::module_info")
    g1 = [n for n in mi["_nodes"] if n.get("k") == "Field" and n["field"] == "module_graph_1"]
    g2 = [n for n in mi["_nodes"] if n.get("k") == "Field" and n["field"] == "module_graph_2"]
    R.floor("C13-m reads of module_graph_1 / module_graph_2 in module_info", min(len(g1), len(g2)), 1)
    for n in g1:
        g = guards_at(F, n)
        absent2 = any((x.kind == "pat" and not x.pol and mentions_field(x.scrut, "module_graph_2") and "Option::Some" in pat_text(x.pat)) or
                      (x.kind == "pat" and x.pol and mentions_field(x.scrut, "module_graph_2") and "Option::None" in pat_text(x.pat)) or
                      (x.kind == "cond" and mentions_field(x.node, "module_graph_2") and ((x.pol and any(y.get("name") == "is_none" for y in walk(x.node))) or (not x.pol and any(y.get("name") == "is_some" for y in walk(x.node))))) for x in g)
        chained = any(a.get("k") == "MethodCall" and a["name"] in ("or", "or_else") and mentions_field(a["recv"], "module_graph_2") and is_within(n, a["args"][0]) for a in k_ancestors(n))
        R.ob("C13-m", "moduleGraph1 is consulted only when the manifest has no moduleGraph2", absent2 or chained,
             "JsrPackageVersionInfo::module_info reads `module_graph_1` without having established that `module_graph_2` is absent: for a manifest that carries both sections the legacy one wins, and information it cannot express (e.g. @ts-types) is lost, so the shortcut graph differs from the parsed one", where(n),
             key="C13|C13-m|legacy-section-preferred")
    for n in g2:
        g = guards_at(F, n)
        bad = any(mentions_field(x.scrut if x.kind == "pat" else x.node, "module_graph_1") for x in g)
        R.ob("C13-m", "moduleGraph2 is read unconditionally", not bad, "the read of `module_graph_2` depends on `module_graph_1`", where(n), key="C13|C13-m|legacy-section-preferred")
