"""C17 — pruning types from a full graph gives the code-only graph.

Decides:
  a. every type-bearing field named by the property is cleared by
     `prune_types` on every path that visits a module of that kind, configured
     type imports are cleared, the graph reports itself code-only; any field of
     the touched ADTs whose type says it carries a Resolution / TypesDependency
     / fast-check data and that is not in the table is reported as unclassified.
  b. the traversal follows code edges and redirects and retains exactly what it
     saw: both `retain` calls test `seen_pending.has_seen`, nothing is queued
     from a type edge, SeenPendingCollection is set-backed.
  c. only code imports decide static-versus-dynamic when dependencies are
     recorded (shared with C01-d): otherwise a full build and a code-only build
     disagree on the flag and pruning cannot reconcile them.
  d. every graph-level field is accounted for by prune_types: kept with a
     reason, or re-derived from what survives; `has_node_specifier` is
     recomputed from the modules that are still reachable.
"""
from .lib import *
from . import c01

EXPLANATION = "Must-pass-through of the clearing assignments per module kind in ModuleGraph::prune_types (T2), field classification of the type-bearing ADT fields (T1), and the retain predicates / worklist type (T5, type rule)."
EXPLANATION += " " + 'Plus: graph-level field table (has_node_specifier re-derived), only code imports decide static-vs-dynamic and type resolutions are only written when types are included (shared with C01), the worklist loop never stops early.'
NOT_DECIDED = "observational equality with a second, code-only build"
CONFIGS = ["default", "nofastcheck"]  # thorough tier also analyses the build without fast_check / symbols
ASSUMPTIONS = []

# (ADT, field) -> how prune_types must neutralise it
CLEARED = {
    ("graph::Dependency", "maybe_type"): "graph::Resolution::None",
    ("graph::Dependency", "maybe_deno_types_specifier"): "std::option::Option::None",
    ("graph::JsModule", "maybe_types_dependency"): "std::option::Option::None",
    ("graph::JsModule", "fast_check"): "std::option::Option::None",
    ("graph::WasmModule", "source_dts"): "default",
}
KEPT = {
    ("graph::Dependency", "maybe_code"): "code edge",
    ("graph::JsModule", "maybe_source_map_dependency"): "asset edge (source map), not a type edge; also kept by a code-only build",
}
# graph-level fields: how prune_types must leave them
GRAPH_FIELDS = {
    "graph_kind": "set",         # -> CodeOnly (C17-a)
    "roots": "kept",             # same roots in both builds
    "module_slots": "retained",  # retain(seen) (C17-b)
    "imports": "cleared",        # configured imports are type-only (C17-a)
    "redirects": "retained",     # retain(seen) (C17-b)
    "has_node_specifier": "recomputed",  # a node: module may have been reachable through types only
    "packages": "kept",          # not decided here: package bookkeeping is not part of the observed set of C17
    "npm_dep_graph_result": "kept",  # result of an npm resolution that prune_types does not redo
}
TYPEY = ("graph::Resolution", "graph::TypesDependency", "graph::FastCheckTypeModuleSlot")


def run(F, R, tier):
    pt = F.body("graph::ModuleGraph::prune_types")
    # classification
    for adt in ("graph::Dependency", "graph::JsModule", "graph::WasmModule", "graph::JsonModule"):
        a = F.adt(adt)
        for f in a["variants"][0]["fields"]:
            t = F.types[f["ty"]]
            if any(x in t for x in TYPEY) or f["name"] == "source_dts":
                cls = (adt, f["name"]) in CLEARED or (adt, f["name"]) in KEPT
                R.ob("C17-a", "field %s.%s (%s) is classified" % (adt, f["name"], t[:50]), cls,
                     "%s.%s has a type-bearing type but is neither cleared by prune_types nor listed as kept: pruned graphs would keep type data a code-only build does not have" % (adt, f["name"]), a["file"])
    def assigns(fieldname, adt):
        return [n for n in walk(pt["body"]) if n["k"] == "Assign" and peel(n["l"]).get("k") == "Field" and peel(n["l"])["field"] == fieldname and peel(n["l"]).get("adt") == adt]

    for (adt, fld), want in CLEARED.items():
        if not any(f["name"] == fld for f in F.adt(adt)["variants"][0]["fields"]):
            R.note("field %s.%s does not exist in configuration %s" % (adt, fld, getattr(R, "config", "?")))
            continue
        asg = assigns(fld, adt)
        if not R.ob("C17-a", "prune_types assigns %s.%s" % (adt, fld), len(asg) >= 1, "prune_types no longer clears %s.%s: type data survives pruning" % (adt, fld), pt["file"]):
            continue
        for a in asg:
            r = peel(a["r"])
            if want == "default":
                ok = r.get("k") == "Call" and (r.get("fn") or "").endswith("Default::default")
            else:
                ok = ctor_of(r) == want
            R.ob("C17-a", "%s.%s is set to its empty value" % (adt, fld), ok, "assigned `%s`" % expr_text(a["r"]), where(a))
    # per module kind arm: the clears are on every path of the arm
    mm = [n for n in walk(pt["body"]) if n["k"] == "Match" and any("graph::Module::Js" in pat_text(a["pat"]) for a in n["arms"])]
    if R.ob("C17-a", "per-kind match found", len(mm) == 1, "shape changed", pt["file"]):
        covered = set()
        ca = False
        for arm in mm[0]["arms"]:
            v, c = pat_variants(arm["pat"])
            covered |= v
            ca = ca or c
            name = (sorted(v) or ["_"])[0].split("::")[-1]
            need = []
            if name == "Js":
                need = [("graph::JsModule", "maybe_types_dependency"), ("graph::JsModule", "fast_check")]
            elif name == "Wasm":
                need = [("graph::WasmModule", "source_dts")]
            for adt, fld in need:
                if not any(f["name"] == fld for f in F.adt(adt)["variants"][0]["fields"]):
                    continue
                tg = lambda n, adt=adt, fld=fld: n.get("k") == "Assign" and field_of(n["l"]) == fld and peel(n["l"]).get("adt") == adt
                bad, _ = must_pass(F, arm["body"], tg, exit_kinds=("fallthrough", "return", "break", "continue"))
                R.ob("C17-a", "%s arm clears %s on every path" % (name, fld), not bad, "a path through the %s arm leaves %s untouched" % (name, fld), where(arm["body"]))
            if name in ("Js", "Wasm"):
                hd = [n for n in walk(arm["body"]) if n["k"] == "Call" and "f" in n and any(y.get("k") == "Closure" and any(z.get("k") == "Assign" and field_of(z["l"]) == "maybe_type" for z in walk(y)) for y in through_locals(peel(n["f"])))]
                R.ob("C17-a", "%s arm prunes its dependencies" % name, len(hd) == 1, "handle_dependencies not called for %s modules" % name, where(arm["body"]))
        allv = {v["path"] for v in F.adt("graph::Module")["variants"]}
        R.ob("C17-a", "every module kind is handled explicitly", covered >= allv and not ca, "catch-all or missing module kind: a new kind with type data would be left unpruned", where(mm[0]))
    # the dependency closure clears both fields for every dependency, before queueing
    hd = [n for n in pt["_nodes"] if n.get("k") == "LetStmt" and "init" in n and peel(n["init"]).get("k") == "Closure" and any(z.get("k") == "Assign" and field_of(z["l"]) == "maybe_type" for z in walk(n["init"]))]
    if R.ob("C17-a", "dependency pruning closure found", len(hd) == 1, "shape changed", pt["file"]):
        clo = peel(hd[0]["init"])
        fors = [n for n in walk(clo) if n["k"] == "For"]
        ok = False
        if fors:
            for fld in ("maybe_type", "maybe_deno_types_specifier"):
                tg = lambda n, fld=fld: n.get("k") == "Assign" and field_of(n["l"]) == fld
                bad, _ = must_pass(F, fors[0]["body"], tg, exit_kinds=("fallthrough", "continue", "break", "return"))
                R.ob("C17-a", "every dependency has %s cleared" % fld, not bad, "a path through the dependency loop leaves %s" % fld, where(fors[0]))
            # nothing is queued from the type resolution
            adds = [n for n in walk(fors[0]["body"]) if n.get("k") == "MethodCall" and n["name"] == "add"]
            clear_t = [n for n in walk(fors[0]["body"]) if n.get("k") == "Assign" and field_of(n["l"]) == "maybe_type"]
            for a in adds:
                g = guards_at(F, a, stop_at=fors[0])
                src = [x for x in g if x.kind == "pat" and x.pol]
                via_type = any(callee_matches(x.scrut, ["Dependency::get_type"]) for x in src)
                via_code = any(callee_matches(x.scrut, ["Dependency::get_code"]) for x in src)
                if via_type:
                    R.ob("C17-b", "type edges are not followed (type resolution is cleared before it is read)", bool(clear_t) and may_reach(F, clear_t[0], a, scope=fors[0]["body"]) and not may_reach(F, a, clear_t[0], scope=fors[0]["body"]),
                         "prune_types queues the type target of a dependency: type-only modules survive pruning", where(a))
                else:
                    R.ob("C17-b", "code edges are followed", via_code, "worklist add not derived from get_code()", where(a))
    # imports cleared, kind set, on every non-early-return path
    for what, tg in (("configured type imports are cleared", lambda n: n.get("k") == "MethodCall" and n["name"] == "clear" and field_of(n["recv"]) == "imports"),
                     ("graph kind becomes CodeOnly", lambda n: n.get("k") == "Assign" and field_of(n["l"]) == "graph_kind" and ctor_of(peel(n["r"])) == "graph::GraphKind::CodeOnly")):
        fl = Flow(F, tg)
        fl.run(pt["body"]["value"], False)
        bad = []
        for kind, node, st in fl.exits:
            if st is False:
                # the early return for graphs that have no types is legitimate
                g = guards_at(F, node) if kind == "return" else []
                if any(x.kind == "cond" and not x.pol and (x.node.get("fn") or "").endswith("GraphKind::include_types") for x in g):
                    continue
                bad.append(node)
        R.ob("C17-a", what + " on every path that prunes", not bad, "a path through prune_types skips it", where(bad[0]) if bad else "")
    # ---------------- C17-b ------------------------------------------------
    rets = [n for n in pt["_nodes"] if n.get("k") == "MethodCall" and n["name"] == "retain" and field_of(n["recv"]) in ("module_slots", "redirects")]
    R.floor("C17-b retain calls", len(rets), 2)
    for r in rets:
        clo = peel(r["args"][0])
        v = peel(clo["body"]["value"]) if clo.get("k") == "Closure" else {}
        p0 = clo["body"]["params"][0] if clo.get("k") == "Closure" else {}
        ok = v.get("k") == "MethodCall" and (v.get("fn") or "").endswith("SeenPendingCollection::has_seen") and peel_value(v["args"][0]).get("lid") == p0.get("lid")
        R.ob("C17-b", "%s retains exactly the walked entries" % peel(r["recv"])["field"], ok, "retain predicate is `%s`" % expr_text(v), where(r))
    # redirects are followed
    gets = [n for n in pt["_nodes"] if n.get("k") == "MethodCall" and n["name"] == "get" and field_of(n["recv"]) == "redirects"]
    R.ob("C17-b", "the walk follows redirects", len(gets) == 1, "prune_types no longer consults self.redirects", pt["file"])
    for gt in gets:
        ok = False
        for binds, region in matched_regions(gt):
            adds = [n for r_ in region for n in walk(r_) if n.get("k") == "MethodCall" and n["name"] == "add"]
            ok = len(adds) == 1 and any(peel_value(y).get("lid") in binds for y in through_locals(adds[0]["args"][0]))
        R.ob("C17-b", "a redirect source queues its *next hop* (every hop of a chain is walked and retained)", ok,
             "the redirect branch of prune_types does not queue the redirect's own target: intermediate hops of a redirect chain are never seen, so `redirects.retain` drops them and the chain dangles", where(gt))
    spc = F.adt("collections::SeenPendingCollection")
    t = [F.types[f["ty"]] for f in spc["variants"][0]["fields"] if f["name"] == "inner"]
    R.ob("C17-b", "worklist is set-backed (each specifier processed once)", bool(t) and t[0].startswith("indexmap::IndexSet<"), "SeenPendingCollection.inner is %s" % t, spc["file"])
    roots = [n for n in pt["_nodes"] if n.get("k") == "MethodCall" and n["name"] == "extend" and mentions_field(n, "roots", "graph::ModuleGraph")]
    R.ob("C17-b", "the walk starts from the graph's roots", len(roots) == 1, "roots not seeded", pt["file"])

    # the walk covers everything reachable: the worklist loop never stops early
    wl = [n for n in pt["_nodes"] if n["k"] == "While" and any(x.get("k") == "MethodCall" and (x.get("fn") or "").endswith("SeenPendingCollection::next_pending") for x in walk(n["cond"]))]
    if R.ob("C17-b", "worklist loop found", len(wl) == 1, "prune_types no longer drains seen_pending with a while-let loop", pt["file"]):
        early = [x for x in walk(wl[0]["body"]) if x.get("k") in ("Break", "Ret") and not [a for a in k_ancestors(x) if a.get("k") in ("For", "While", "Loop", "Closure") and is_within(a, wl[0]["body"])]]
        R.ob("C17-b", "the worklist is drained completely", not early,
             "the worklist loop of prune_types can stop early (`%s`): specifiers still queued are never marked seen, and the retain step then deletes modules that code still reaches" % (expr_text(early[0])[:20] if early else ""), where(early[0]) if early else "")

    # ---------------- C17-c ------------------------------------------------
    c01.is_dynamic_writes(F, R, tag="C17-c")
    c01.type_writes_gated(F, R, tag="C17-c")

    # ---------------- C17-d ------------------------------------------------
    mg = F.adt("graph::ModuleGraph")
    for f in mg["variants"][0]["fields"]:
        R.ob("C17-d", "graph field %s is classified" % f["name"], f["name"] in GRAPH_FIELDS,
             "ModuleGraph.%s is not in the prune table: decide whether a code-only build would have a different value" % f["name"], mg["file"])
    hn = [n for n in pt["_nodes"] if n["k"] == "Assign" and field_of(n["l"]) == "has_node_specifier" and peel(peel(n["l"]).get("e", {})).get("lid") == pt["body"]["params"][0].get("lid")]
    if R.ob("C17-d", "prune_types re-derives has_node_specifier", len(hn) == 1,
            "prune_types leaves has_node_specifier as computed for the full graph: a node: built-in that was reachable only through types is gone, but the graph still reports one", pt["file"]):
        bad, _ = must_pass(F, pt["body"]["value"], lambda n: n is hn[0])
        bad = [nd for kd, nd in bad if not (kd == "return" and any(x.kind == "cond" and not x.pol and (x.node.get("fn") or "").endswith("GraphKind::include_types") for x in guards_at(F, nd)))]
        R.ob("C17-d", "has_node_specifier is re-derived on every path that prunes", not bad, "a path through prune_types skips the assignment", where(bad[0]) if bad else "")
        src = peel_value(hn[0]["r"])
        ok = False
        why = "assigned `%s`" % expr_text(hn[0]["r"])
        if src.get("res") == "local":
            defs = local_defs(pt, src["lid"])
            lets = [d for d in defs if d[0] == "let"]
            asg = [d for d in defs if d[0] == "assign"]
            init_false = len(lets) == 1 and lets[0][1] is not None and peel(lets[0][1]).get("v") is False
            trues = []
            for n in pt["_nodes"]:
                if n["k"] == "Assign" and peel(n["l"]).get("lid") == src["lid"]:
                    trues.append(n)
            arms_ok = bool(trues)
            for t in trues:
                g = guards_at(F, t)
                in_node = any(x.kind == "pat" and x.pol and "graph::Module::Node" in pat_text(x.pat) and "graph::Module::Js" not in pat_text(x.pat) for x in g)
                arms_ok = arms_ok and peel(t["r"]).get("v") is True and in_node
            # every walked Node module sets it: the Node arm of the per-kind match contains the assignment
            node_arms = [a for a in (mm[0]["arms"] if mm else []) if "graph::Module::Node" in pat_text(a["pat"])]
            covered = bool(node_arms) and all(any(is_within(t, a["body"]) for t in trues) for a in node_arms)
            ok = init_false and arms_ok and covered
            why = "flag local: init false=%s, set only for walked node: modules=%s, every Node arm sets it=%s" % (init_false, arms_ok, covered)
        R.ob("C17-d", "has_node_specifier is true exactly if a node: module survives the walk", ok, why, where(hn[0]))
