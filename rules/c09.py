"""C09 — fast-check output parses and is closed under reference.

Closure / parseability of emitted text is NOT decided. Decided:
  S. retained module specifiers are rewritten: in transform_item the retain
     edges of Import, ExportNamed (with source) and ExportAll pass
     transform_module_specifier; that function only rewrites relative
     specifiers, to the target that `resolve_dependency(.., prefer types)`
     gives (the types module of the graph), and keeps a leading `./`.
  X. the tracer handles every reference form: the matches over SymbolDeclKind,
     SymbolNodeDep, FileDepName, ImportedExports and Exports inside
     analyze_module_info have no catch-all (a new form cannot be silently
     ignored), and every FileRef / ImportType arm passes add_pending_trace or
     add_pending_nv (the referenced module / package gets traced).
  E. emission: the source map is requested as a separate map, built over the
     original text under the module's own specifier; an emit failure becomes a
     diagnostic.
"""
from .lib import *
from .lib import _tail_values as _tail_values_
from .lib import _tail_values

EXPLANATION = (
    "Must-pass-through of specifier rewriting on every retain edge (T2), arm tables of the tracer's matches over the symbol "
    "model (T8: exhaustive without catch-all; file-reference arms reach the pending-trace queue), and field provenance of the "
    "emit options (T4)."
)
EXPLANATION += " " + 'Plus: computed keys are value references in every visitor (T12), every leaf arm of DepsFiller::fill and every visitor override collects something, re-queued qualified traces keep their referrer (T4), result tables of ImportedExports::add / Exports::extend (T8), declaration / export loops never stop early, all dependency lookups of symbols + fast check prefer types (T12).'
NOT_DECIDED = "closure of the emitted program under reference, parseability, source-map position correctness (properties of emitted text)"
ASSUMPTIONS = []

T = "fast_check::transform::FastCheckTransformer::"
RF = "fast_check::range_finder::PublicRangeFinder::"
WATCHED = ("symbols::analyzer::SymbolDeclKind", "symbols::dep_analyzer::SymbolNodeDep", "symbols::analyzer::FileDepName", "fast_check::range_finder::ImportedExports", "fast_check::range_finder::Exports", "symbols::cross_module::ResolvedExportOrReExportAllPath")


def prefer_types_sites(F, R, tag="C09-X"):
    # the symbol model and the tracer look at declarations: every dependency lookup in
    # src/symbols and src/fast_check prefers the types target (sibling agreement)
    pt_sites = [n for n in F.all_nodes() if callee_matches(n, ["ModuleGraph::resolve_dependency"]) and not n["_top"].get("derived") and (n["_top"]["file"].startswith("src/symbols/") or n["_top"]["file"].startswith("src/fast_check/"))]
    R.floor(tag + " dependency lookups of the symbol model / tracer", len(pt_sites), 10)
    for n in pt_sites:
        a_ = call_args(n)
        R.ob(tag, "dependency lookup in %s prefers types" % n["_top"]["path"].split("::")[-1], peel(a_[-1]).get("v") is True,
             "resolve_dependency(.., %s) in %s: the lookup lands on the implementation file instead of its declaration file, so exports/definitions are traced in the wrong module (its siblings all pass `true`)" % (expr_text(a_[-1]), n["_top"]["path"].split("::")[-1]), where(n))



def run(F, R, tier):
    _round6(F, R)
    ti = F.body(T + "transform_item")
    mm = [n for n in ti["_nodes"] if n["k"] == "Match" and tyc(F, n["scrut"], "::ModuleDecl") and peel(n["scrut"]).get("res") == "local"]
    if R.ob("C09-S", "module declaration match found", len(mm) == 1, "shape changed", ti["file"]):
        for arm in mm[0]["arms"]:
            v, _ = pat_variants(arm["pat"])
            names = {x.split("::")[-1] for x in v}
            if names & {"Import", "ExportNamed", "ExportAll"}:
                nm = sorted(names)[0]
                calls = [n for n in walk(arm["body"]) if callee_matches(n, [T + "transform_module_specifier"])]
                ok = len(calls) == 1
                if ok:
                    g = guards_at(F, calls[0], stop_at=arm, expand=False)
                    conds = [x for x in g if x.kind == "cond"]
                    ok = len(conds) == 1 and conds[0].pol and peel(conds[0].node).get("res") == "local" and tyc(F, conds[0].node, "bool")
                    if nm == "ExportNamed":
                        ok = ok and any(x.kind == "pat" and x.pol and mentions_field(x.scrut, "src") for x in g)
                R.ob("C09-S", "%s: a retained statement has its specifier rewritten" % nm, ok,
                     "the retain edge of %s does not pass transform_module_specifier (exactly under `retain`): the emitted module would import the implementation file instead of its types counterpart" % nm, where(arm["body"]))
    ts = F.body(T + "transform_module_specifier")
    rd = [n for n in ts["_nodes"] if callee_matches(n, ["ModuleGraph::resolve_dependency"])]
    if R.ob("C09-S", "rewriting resolves through the graph", len(rd) == 1, "shape changed", ts["file"]):
        a = call_args(rd[0])
        R.ob("C09-S", "the rewritten target is the types-preferring resolution from this module", peel(a[3]).get("v") is True and peel_value(a[2]).get("field") == "specifier", "resolve_dependency(%s)" % ", ".join(expr_text(x) for x in a[1:]), where(rd[0]))
    rets = [n for n in ts["_nodes"] if n["k"] == "Ret"]
    rel = [r for r in rets if any(x.kind == "cond" and not x.pol and "starts_with" in expr_text(x.node) and "'.'" in expr_text(x.node) for x in guards_at(F, r))]
    R.ob("C09-S", "only relative specifiers are rewritten", len(rel) == 1, "non-relative guard changed", ts["file"])
    asg = [n for n in ts["_nodes"] if n["k"] == "Assign" and field_of(n["l"]) == "value"]
    R.ob("C09-S", "the specifier value is replaced by the relative path (keeping ./)", len(asg) >= 1, "value assignments: %d" % len(asg), ts["file"])
    raw = [n for n in ts["_nodes"] if n["k"] == "Assign" and field_of(n["l"]) == "raw" and ctor_of(peel(n["r"])) == "std::option::Option::None"]
    R.ob("C09-S", "the raw text of a rewritten specifier is dropped (otherwise the old text is emitted)", len(raw) == 1 and all(may_reach(F, a_, raw[0]) for a_ in asg), "src.raw is not reset after rewriting", ts["file"])

    # ---------------- C09-X ------------------------------------------------
    am = F.body(RF + "analyze_module_info")
    n_m = 0
    for n in am["_nodes"]:
        if n["k"] != "Match" or "matches" in (n.get("mac") or []):
            continue
        t = (F.ty(n["scrut"], True) or "").lstrip("&").split("<")[0]
        if t not in WATCHED:
            continue
        n_m += 1
        covered = set()
        ca = False
        for arm in n["arms"]:
            v, c = pat_variants(arm["pat"])
            covered |= v
            ca = ca or c
        allv = {v["path"] for v in F.adt(t)["variants"]}
        R.ob("C09-X", "match over %s at line-independent site #%d is exhaustive without catch-all" % (t.split("::")[-1], n_m), covered >= allv and not ca,
             "match over %s has a catch-all or misses %s: a reference form could be silently ignored by the tracer, leaving dangling references in the output" % (t, sorted(x.split("::")[-1] for x in allv - covered)), where(n))
        if t == "symbols::analyzer::SymbolDeclKind":
            for arm in n["arms"]:
                v, _ = pat_variants(arm["pat"])
                if any(x.endswith("::FileRef") for x in v):
                    ok = any(callee_matches(x, [RF + "add_pending_trace", RF + "add_pending_nv"]) for x in walk(arm["body"]))
                    R.ob("C09-X", "a file reference declaration gets its target traced", ok, "FileRef arm reaches neither add_pending_trace nor add_pending_nv: names re-exported from another module would not be emitted there", where(arm["body"]))
        if t == "symbols::dep_analyzer::SymbolNodeDep":
            for arm in n["arms"]:
                v, _ = pat_variants(arm["pat"])
                if any(x.endswith("::ImportType") for x in v):
                    ok = any(callee_matches(x, [RF + "add_pending_trace", RF + "add_pending_nv"]) for x in walk(arm["body"]))
                    R.ob("C09-X", "an import type gets its target traced", ok, "ImportType arm does not queue a trace", where(arm["body"]))
    R.floor("C09-X tracer matches over the symbol model", n_m, 9)
    # a referenced package is queued once and recorded as a dependency of the referrer
    apn = F.body(RF + "add_pending_nv")
    R.ob("C09-X", "a referenced package is recorded as dependency and queued", any(callee_matches(n, [RF + "add_pending_nv_no_referrer"]) for n in apn["_nodes"]) and any(n.get("k") == "MethodCall" and n["name"] == "insert" and field_of(n["recv"]) == "dependencies" for n in apn["_nodes"]),
         "add_pending_nv no longer records / queues the referenced package", apn["file"])
    fl = Flow(F, lambda n: n.get("k") == "MethodCall" and n["name"] == "insert" and field_of(n["recv"]) == "dependencies")
    fl.run(apn["body"]["value"], False)
    bad = []
    for kind, node, st in fl.exits:
        if st is False and kind in ("return", "fallthrough"):
            g = guards_at(F, node) if kind == "return" else []
            if any(x.kind == "cond" and x.pol and x.node.get("k") == "Binary" and x.node["op"] == "==" for x in g):
                continue  # dep == referrer: a package does not depend on itself
            bad.append(node)
    R.ob("C09-X", "every reference to another package is recorded for the referrer (also when the package was already seen)", not bad,
         "a path through add_pending_nv does not insert the dependency for this referrer: the referrer's cached entry would not re-queue the package it needs", where(bad[0]) if bad else "")
    apq = F.body(RF + "add_pending_nv_no_referrer")
    pb = [n for n in apq["_nodes"] if n.get("k") == "MethodCall" and n["name"] == "push_back" and field_of(n["recv"]) == "pending_nvs"]
    ok = len(pb) == 1
    if ok:
        g = guards_at(F, pb[0])
        ok = any(x.kind == "cond" and x.pol for x in g)
        ins = [n for n in apq["_nodes"] if n.get("k") == "MethodCall" and n["name"] == "insert" and field_of(n["recv"]) == "seen_nvs"]
        ok = ok and len(ins) == 1
    R.ob("C09-X", "each package is queued for analysis exactly once", ok, "pending_nvs.push_back not gated by a successful seen_nvs.insert", apq["file"])
    apt = F.body(RF + "add_pending_trace")
    ok = any(n.get("k") == "MethodCall" and n["name"] == "add" and field_of(n["recv"]) == "pending_traces" for n in apt["_nodes"]) and any(n.get("k") == "MethodCall" and n["name"] == "add" and field_of(n["recv"]) == "traced_exports" for n in apt["_nodes"])
    R.ob("C09-X", "a requested trace is queued unless already handled", ok, "add_pending_trace shape changed", apt["file"])

    # ---------------- C09-L (lattice) ------------------------------------------
    ad = F.body("fast_check::range_finder::ImportedExports::add")
    stars = [n for n in ad["_nodes"] if n["k"] == "Assign" and ctor_of(peel(n["r"])) == "fast_check::range_finder::ImportedExports::Star"]
    R.floor("C09-L downgrades to Star in ImportedExports::add", len(stars), 1)
    for a in stars:
        g = guards_at(F, a)
        ok = any(x.kind == "cond" and not x.pol and x.node.get("k") == "MethodCall" and x.node["name"] == "contains_key" and peel(x.node["args"][0]).get("v") == "default" for x in g)
        R.ob("C09-L", "an already traced subset is replaced by Star only if it does not contain `default`", ok,
             "`*self = ImportedExports::Star` is not guarded by `!subset.contains_key(\"default\")`: Star does not cover `default`, so a previously requested default export is forgotten and the emitted module drops a name that importers still import", where(a))
    # what `add` reports as newly requested (None = nothing new to trace)
    IE = "fast_check::range_finder::ImportedExports::"
    vals_ = []
    _tail_values_(F, ad["body"]["value"], vals_)
    n_t = 0
    for v in vals_:
        g = guards_at(F, v)
        selfk = {k_ for x in g if x.kind == "pat" and x.pol and peel_value(x.scrut).get("lid") == ad["body"]["params"][0].get("lid") for k_ in ("Star", "StarWithDefault", "Subset") if pat_text(x.pat).startswith(IE + k_ + "(") or pat_text(x.pat) == IE + k_}
        newk = {k_ for x in g if x.kind == "pat" and x.pol and peel_value(x.scrut).get("lid") == ad["body"]["params"][1].get("lid") for k_ in ("Star", "StarWithDefault", "Subset") if pat_text(x.pat).startswith(IE + k_ + "(") or pat_text(x.pat) == IE + k_}
        if len(selfk) != 1:
            continue
        sk = next(iter(selfk))
        nk = next(iter(newk)) if len(newk) == 1 else None
        has_default = [x.pol for x in g if x.kind == "cond" and x.node.get("k") == "MethodCall" and x.node["name"] == "contains_key" and peel(x.node["args"][0]).get("v") == "default"]
        is_none = ctor_of(v) == "std::option::Option::None"
        if sk == "StarWithDefault":
            want_none = True
        elif sk == "Star":
            want_none = (nk == "Star") or (nk == "Subset" and has_default == [False])
        else:
            want_none = False
        n_t += 1
        R.ob("C09-L", "merging %s with %s%s reports %s" % (sk, nk or "*", "" if not has_default else (" (default requested)" if has_default[0] else " (default not requested)"), "nothing new" if want_none else "the newly requested exports"), is_none == want_none,
             "ImportedExports::add(%s <- %s) returns `%s`: %s" % (sk, nk, expr_text(v)[:40], "exports that were never traced are reported as handled, so they are missing from the emitted module" if is_none else "already traced exports are traced again"), where(v))
    R.floor("C09-L results of ImportedExports::add", n_t, 6)
    # Exports::extend: what is reported as newly requested
    exb = F.body("fast_check::range_finder::Exports::extend")
    EX = "fast_check::range_finder::Exports::"
    vals_ = []
    _tail_values_(F, exb["body"]["value"], vals_)
    for r_ in walk(exb["body"]["value"]):
        if r_.get("k") == "Ret" and "e" in r_:
            _tail_values_(F, r_["e"], vals_)
    n_e = 0
    for v in vals_:
        g = guards_at(F, v)
        p0, p1 = exb["body"]["params"][0].get("lid"), exb["body"]["params"][1].get("lid")
        def kinds(lid):
            return {k_ for x in g if x.kind == "pat" and x.pol and peel_value(x.scrut).get("lid") == lid for k_ in ("All", "Subset") if pat_text(x.pat).startswith(EX + k_ + "(") or pat_text(x.pat) == EX + k_}
        sk, nk = kinds(p0), kinds(p1)
        is_none = ctor_of(v) == "std::option::Option::None"
        empty = [x.pol for x in g if x.kind == "cond" and x.node.get("k") == "MethodCall" and x.node["name"] == "is_empty"]
        if sk == {"All"}:
            want_none, what = True, "All <- anything"
        elif nk == {"All"}:
            want_none, what = False, "Subset <- All"
        elif nk == {"Subset"} and empty:
            want_none, what = empty[0], "Subset <- Subset (difference %s)" % ("empty" if empty[0] else "not empty")
        else:
            continue
        n_e += 1
        R.ob("C09-L", "Exports::extend %s reports %s" % (what, "nothing new" if want_none else "the newly requested part"), is_none == want_none,
             "Exports::extend (%s) returns `%s`: %s" % (what, expr_text(v)[:40], "members that were never traced are reported as handled and are missing from the emitted declaration" if is_none else "already traced members are reported as new"), where(v))
    R.floor("C09-L results of Exports::extend", n_e, 4)
    ups = [n for n in ad["_nodes"] if n["k"] == "Assign" and ctor_of(peel(n["r"])) == "fast_check::range_finder::ImportedExports::StarWithDefault"]
    R.ob("C09-L", "merging can upgrade to StarWithDefault", len(ups) >= 3, "only %d upgrade site(s) to StarWithDefault" % len(ups), ad["file"])
    mm = [n for n in ad["_nodes"] if n["k"] == "Match"]
    for m in mm:
        t = (F.ty(m["scrut"], True) or "").lstrip("&mut ").lstrip("&")
        if "ImportedExports" in t:
            ca = any(pat_variants(a_["pat"])[1] for a_ in m["arms"])
            R.ob("C09-L", "merge of trace requests distinguishes every combination (no catch-all)", not ca, "catch-all in ImportedExports::add", where(m))
    # namespaces(): the named, exported and default-exported form of one declaration kind agree
    ns = F.body("symbols::analyzer::SymbolNodeRef::namespaces")
    table = {}
    for m in [n for n in ns["_nodes"] if n["k"] == "Match"]:
        for arm in m["arms"]:
            v, _ = pat_variants(arm["pat"])
            b = peel(arm["body"])
            if b.get("k") == "Tup" and len(b["args"]) == 2:
                tup = (peel(b["args"][0]).get("v"), peel(b["args"][1]).get("v"))
                for x in v:
                    table["::".join(x.split("::")[-2:])] = tup
    GROUPS = {
        "class": ["SymbolNodeRef::ClassDecl", "ExportDeclRef::Class", "DefaultDecl::Class"],
        "function": ["SymbolNodeRef::FnDecl", "ExportDeclRef::Fn", "DefaultDecl::Fn"],
        "interface": ["SymbolNodeRef::TsInterface", "ExportDeclRef::TsInterface", "DefaultDecl::TsInterfaceDecl"],
        "enum": ["SymbolNodeRef::TsEnum", "ExportDeclRef::TsEnum"],
        "namespace": ["SymbolNodeRef::TsNamespace", "ExportDeclRef::TsModule"],
        "type alias": ["SymbolNodeRef::TsTypeAlias", "ExportDeclRef::TsTypeAlias"],
        "variable": ["SymbolNodeRef::Var", "ExportDeclRef::Var"],
    }
    for kind, members in GROUPS.items():
        vals = {m_: table.get(m_) for m_ in members}
        missing = [k for k, v in vals.items() if v is None]
        R.ob("C09-L", "value/type namespaces of a %s agree between its plain, exported and default-exported form" % kind, not missing and len(set(vals.values())) == 1,
             "namespaces() gives %s: the tracer would skip the declaration in one of its forms when a type (or value) reference asks for it, leaving an undeclared name in the output" % vals, ns["file"])

    # ---------------- C09-D (what a declaration references) -------------------
    # computed member keys are value references even inside types: every
    # visitor of the dependency analyser hands a computed key to
    # visit_computed_key (sibling agreement)
    DF = "symbols::dep_analyzer::DepsFiller"
    vck = DF + "::visit_computed_key"
    n_ck = 0
    for b in F.bodies:
        if b.get("derived") or not (b.get("self_adt") == DF or b["path"].startswith("<" + DF)):
            continue
        if b["path"].endswith("::visit_computed_key"):
            continue
        for n in b["_nodes"]:
            region = None
            keyf = None
            if n.get("k") == "If":
                c = peel(n["cond"])
                if c.get("k") == "Field" and c["field"] == "computed":
                    region, keyf = n["then"], "key"
            cands = [(region, keyf)] if region is not None else []
            if n.get("k") == "Match":
                for arm in n["arms"]:
                    if "PropName::Computed" in pat_text(arm["pat"]):
                        cands.append((arm["body"], "expr"))
            for region, keyf in cands:
              calls = [c_ for c_ in walk(region) if c_.get("k") in ("Call", "MethodCall") and any(mentions_field(a_, keyf) for a_ in call_args(c_)[1:] or call_args(c_))]
              calls = [c_ for c_ in calls if not any(c2 is not c_ and is_within(c_, c2) for c2 in calls)]
              for c_ in calls:
                n_ck += 1
                R.ob("C09-D", "computed key in %s is recorded as a value reference" % b["path"].split("::")[-1].rstrip(">"), callee_matches(c_, [vck]),
                     "a computed key is visited with `%s` instead of visit_computed_key: inside a type it is recorded as a type reference, the value it names is not traced and the emitted declaration refers to a removed const" % expr_text(c_)[:50], where(c_))
    R.floor("C09-D computed-key visits", n_ck, 5)
    vb = F.body(vck)
    ok = any(callee_matches(n, [DF + "::with_context"]) and any(ctor_of(x) == "symbols::dep_analyzer::ReferenceNamespace::Value" for x in walk(n)) for n in vb["_nodes"])
    R.ob("C09-D", "visit_computed_key switches to the value namespace", ok, "visit_computed_key no longer visits the key under ReferenceNamespace::Value", vb["file"])

    # every kind of declaration has its references collected: each leaf arm of DepsFiller::fill
    # visits the node it matched (containers whose children are symbols of their own excepted)
    NO_DEPS = {"SymbolNodeRef::Module": "children are symbols of their own", "SymbolNodeRef::TsNamespace": "children are symbols of their own", "ExportDeclRef::TsModule": "children are symbols of their own"}
    fb = F.body(DF + "::fill")
    n_arm = 0
    def leaf_arms(m):
        for arm in m["arms"]:
            inner = peel(arm["body"])
            while inner.get("k") == "Block" and not inner["stmts"] and "expr" in inner:
                inner = peel(inner["expr"])
            if inner.get("k") == "Match" and (tyc(F, inner["scrut"], "ExportDeclRef") or tyc(F, inner["scrut"], "DefaultDecl")):
                yield from leaf_arms(inner)
            else:
                yield arm
    top_m = [n for n in fb["_nodes"] if n["k"] == "Match" and tyc(F, n["scrut"], "SymbolNodeRef")]
    if R.ob("C09-D", "DepsFiller::fill dispatches on the declaration kind", len(top_m) >= 1, "shape changed", fb["file"]):
        for arm in leaf_arms(top_m[0]):
            v, c = pat_variants(arm["pat"])
            names = {"::".join(x.split("::")[-2:]) for x in v}
            n_arm += 1
            if c and not v:
                R.ob("C09-D", "no catch-all in DepsFiller::fill", False, "a catch-all arm would silently give new declaration kinds no dependencies", where(arm["body"]))
                continue
            if names and names <= set(NO_DEPS):
                R.ob("C09-D", "%s has no references of its own (reviewed)" % sorted(names), not any(x.get("k") in ("Call", "MethodCall") for x in walk(arm["body"])), "reviewed no-op arm now does something", where(arm["body"]), nontrivial=False)
                continue
            binds = {b_["lid"] for b_ in pat_bindings(arm["pat"])}
            visits = [x for x in walk(arm["body"]) if x.get("k") == "MethodCall" and x["name"].startswith("visit_") and binds]
            R.ob("C09-D", "references of %s are collected" % sorted(names)[0], bool(visits),
                 "the %s arm of DepsFiller::fill visits nothing of the matched node: what such a declaration references is never traced, so the emitted declaration file mentions names it does not declare" % sorted(names), where(arm["body"]))
    R.floor("C09-D leaf arms of DepsFiller::fill", n_arm, 30)

    # every visitor override of the dependency analyser descends into (or records) its node
    n_ov = 0
    for b in F.bodies:
        if b.get("derived") or not b["path"].startswith("<" + DF + " as "):
            continue
        n_ov += 1
        acts = [x for x in b["_nodes"] if x.get("k") in ("MethodCall", "Call") and ((x.get("name") or "").startswith(("visit_", "add_", "with_context")) or (x.get("fn") or "").split("::")[-1].startswith(("visit_", "add_", "with_context", "push")))]
        R.ob("C09-D", "%s descends into or records its node" % b["path"].split("::")[-1], bool(acts),
             "the %s override of DepsFiller does nothing: references nested below such a node are never collected" % b["path"].split("::")[-1], b["file"])
    R.floor("C09-D DepsFiller visitor overrides", n_ov, 25)
    # a type annotation / type parameter list / return type that a visitor unwraps is visited
    TYPEY_FIELDS = ("type_ann", "return_type", "type_params", "type_args", "super_type_params", "constraint", "default")
    n_ta = 0
    for b in F.bodies:
        if b.get("derived") or not (b["path"].startswith("<" + DF + " as ") or b.get("self_adt") == DF):
            continue
        for n in b["_nodes"]:
            if n.get("k") != "If" or peel(n["cond"]).get("k") != "Let":
                continue
            c = peel(n["cond"])
            src = peel_value(c["init"])
            if not (src.get("k") == "Field" and src["field"] in TYPEY_FIELDS):
                continue
            binds = {b_["lid"] for b_ in pat_bindings(c["pat"])}
            if not binds:
                continue
            n_ta += 1
            used = [x for x in walk(n["then"]) if x.get("k") in ("MethodCall", "Call") and ((x.get("name") or "").startswith("visit") or (x.get("fn") or "").split("::")[-1].startswith("visit")) and any(y.get("lid") in binds for y in walk(x))]
            R.ob("C09-D", "the `%s` unwrapped in %s is visited" % (src["field"], b["path"].split("::")[-1].rstrip(">")), bool(used),
                 "`if let Some(..) = &..%s` in %s does nothing with it: names referenced from that type position are never traced and end up undeclared in the emitted file" % (src["field"], b["path"].split("::")[-1].rstrip(">")), where(n))
    R.floor("C09-D unwrapped type positions", n_ta, 15)
    # every declaration of a symbol is traced: loops over a symbol's declarations never stop early
    n_dl = 0
    for lp in [n for n in am["_nodes"] if n["k"] == "For"]:
        if not (any(x.get("k") == "MethodCall" and x["name"] == "decls" for x in walk(lp["iter"])) or tyc(F, lp["iter"], "SymbolDecl")):
            continue
        n_dl += 1
        early = []
        for x in walk(lp["body"]):
            if x.get("k") in ("Break", "Ret"):
                inner = [a for a in k_ancestors(x) if a.get("k") in ("For", "While", "Loop", "Closure") and is_within(a, lp["body"])]
                if inner:
                    continue
                early.append(x)
        R.ob("C09-X", "every declaration of a traced symbol is analysed", not early,
             "a loop over `symbol.decls()` in analyze_module_info can stop early (`%s`): later declarations of a merged symbol (overloads, namespace + function, interface + class) are never traced" % (expr_text(early[0])[:20] if early else ""), where(early[0]) if early else "")
    R.floor("C09-X declaration loops", n_dl, 2)
    # the same for loops over a module's exports
    n_el = 0
    for lp in [n for n in am["_nodes"] if n["k"] == "For"]:
        if not any(x.get("k") == "MethodCall" and x["name"] == "exports" for x in walk(lp["iter"])):
            continue
        n_el += 1
        early = [x for x in walk(lp["body"]) if x.get("k") in ("Break", "Ret") and not [a for a in k_ancestors(x) if a.get("k") in ("For", "While", "Loop", "Closure") and is_within(a, lp["body"])]]
        R.ob("C09-X", "every export of a star-traced module is considered", not early,
             "the loop over a module's exports can stop early (`%s`): exports listed after that point are not traced although `export *` makes them public" % (expr_text(early[0])[:20] if early else ""), where(early[0]) if early else "")
    R.floor("C09-X export loops", n_el, 1)

    prefer_types_sites(F, R)

    # ---------------- C09-R (referrer of a re-queued qualified trace) ----------
    # the Id trace decides from the referrer whether the parent of a member has
    # to be traced; a qualified trace that is re-queued must therefore keep the
    # referrer it was queued with
    n_q = 0
    for n in [a_ for m_ in am["_nodes"] if m_.get("k") == "Match" for a_ in m_["arms"]]:
        if (n["pat"].get("path") or "").endswith("PendingIdTrace::QualifiedId"):
            # the binding of the `referrer_id` field
            ref_lid = None
            for fp in (n["pat"].get("fields") or []):
                if fp.get("name") == "referrer_id":
                    bs = pat_bindings(fp["pat"])
                    ref_lid = bs[0]["lid"] if bs else None
            if ref_lid is None:
                continue
            for x in walk(n["body"]):
                if x.get("k") == "Struct" and (x.get("adt") or "").endswith("PendingIdTrace") and (x.get("variant") or ctor_of(x) or "").endswith("QualifiedId"):
                    f = {y["name"]: y["e"] for y in x["fields"]}
                    n_q += 1
                    R.ob("C09-R", "a re-queued qualified trace keeps its referrer", peel_value(f["referrer_id"]).get("lid") == ref_lid,
                         "PendingIdTrace::QualifiedId is re-queued with referrer `%s` instead of the referrer of the trace being processed: with the symbol itself as referrer the Id trace does not trace the member's parent, and private types the parent needs are dropped" % expr_text(f["referrer_id"]), where(x))
                elif callee_matches(x, ["PendingTraces::maybe_add_id_trace"]):
                    a_ = call_args(x)
                    n_q += 1
                    R.ob("C09-R", "an id trace queued from a qualified trace keeps its referrer", peel_value(a_[2]).get("lid") == ref_lid,
                         "maybe_add_id_trace(.., %s, ..) inside the qualified-id arm does not pass the trace's referrer" % expr_text(a_[2]), where(x))
    R.floor("C09-R re-queued traces in the qualified-id arm", n_q, 5)

    # ---------------- C09-E ------------------------------------------------
    tm = F.body("fast_check::transform::transform")
    eo = [n for n in tm["_nodes"] if n["k"] == "Struct" and (n.get("adt") or "").endswith("EmitOptions")]
    if R.ob("C09-E", "emit options found", len(eo) == 1, "shape changed", tm["file"]):
        f = {x["name"]: peel(x["e"]) for x in eo[0]["fields"]}
        R.ob("C09-E", "a separate source map is requested", (ctor_of(f["source_map"]) or "").endswith("SourceMapOption::Separate"), "source_map = %s" % expr_text(f["source_map"]), where(eo[0]))
        R.ob("C09-E", "comments are kept (doc comments of the public API)", f["remove_comments"].get("v") is False, "remove_comments = %s" % expr_text(f["remove_comments"]), where(eo[0]))
    sm = [n for n in tm["_nodes"] if n.get("k") == "Call" and (n.get("fn") or "").endswith("SourceMap::single")]
    if R.ob("C09-E", "source map built over a single file", len(sm) == 1, "shape changed", tm["file"]):
        a = sm[0]["args"]
        R.ob("C09-E", "the map refers to the module's own specifier and its original text", tyc(F, a[0], "url::Url") and any(y.get("k") == "MethodCall" and y["name"] == "text" and tyc(F, y["recv"], "ParsedSource") for y in walk(a[1])), "SourceMap::single(%s, %s)" % (expr_text(a[0]), expr_text(a[1])), where(sm[0]))
    em = [n for n in tm["_nodes"] if ctor_of(n) and ctor_of(n).endswith("FastCheckDiagnostic::Emit")]
    R.ob("C09-E", "an emit failure becomes a diagnostic", len(em) == 1, "emit errors not mapped to FastCheckDiagnostic::Emit", tm["file"])
    st = [n for n in tm["_nodes"] if n["k"] == "Struct" and n.get("adt") == "fast_check::transform::FastCheckModule"]
    if st:
        f = {x["name"]: x["e"] for x in st[0]["fields"]}
        def from_emit(e):
            return any(mentions_call(y, ["deno_ast::emit", "emit"]) or (peel_value(y).get("k") == "Field" and tyc(F, peel_value(y)["e"], "EmittedSource")) for y in through_locals(peel_value(e) if peel_value(e).get("k") != "MethodCall" else peel_value(e)) for _ in [0]) or any(tyc(F, y, "EmittedSource") for y in walk(e)) or any(tyc(F, z, "EmittedSource") for y in walk(e) if y.get("res") == "local" for i_ in through_locals(y) for z in walk(i_))
        ok = from_emit(f["text"]) and from_emit(f["source_map"])
        R.ob("C09-E", "text and source map come from the same emit", ok, "text=%s source_map=%s" % (expr_text(f["text"]), expr_text(f["source_map"])), where(st[0]))

    # ---------------- later (round 6) ---------------------------------------
    # C09-S: a rewritten relative specifier gets the `./` prefix exactly when the
    # relative path does not climb (`../`): Url::make_relative yields siblings /
    # children without a leading dot segment, and those may themselves start
    # with a dot (`.generated/x.ts`)
    tms = F.body("fast_check::transform::FastCheckTransformer::transform_module_specifier")
    fm = [n for n in tms["_nodes"] if n.get("k") == "Call" and macro_of(n, ["format"])]
    pre = []
    for n in fm:
        g = guards_at(F, n)
        if any(x.kind == "pat" and x.pol and any(y.get("name") == "make_relative" for y in walk(x.scrut)) for x in g) or any(z.get("name") == "make_relative" for z in walk(tms["body"])):
            pre.append((n, g))
    R.floor("C09-S `./` prefix site in transform_module_specifier", len(pre), 1)
    for n, g in pre[:1]:
        def lit_of(c):
            return peel(c["args"][0]).get("v") if c.get("k") == "MethodCall" and c["name"] == "starts_with" and c.get("args") else None
        climbs = [x for x in g if x.kind == "cond" and lit_of(x.node) == "../"]
        other = [x for x in g if x.kind == "cond" and lit_of(x.node) not in (None, "../") and any(z.get("name") == "make_relative" for y in through_locals(x.node["recv"]) for z in walk(y))]
        R.ob("C09-S", "`./` is prepended exactly when the relative path does not start with `../`", bool(climbs) and all(not x.pol for x in climbs) and not other,
             "transform_module_specifier decides the `./` prefix by another test than `!relative.starts_with(\"../\")` (%s): a types module whose path starts with a dot-file or dot-directory is emitted as a bare specifier that does not resolve" % [x.text()[:40] for x in g if x.kind == "cond"][:3],
             where(n), key="C09|C09-S|dot-slash-prefix")


def _round6(F, R):
    # C09-T: a name that reaches a module through `export *` is traced hop by
    # hop: the module traced next is the re-exporting hop (`referrer_module` of
    # the ReExportAllPath), not the module that finally declares the name --
    # otherwise the `export *` statements in between are never marked public and
    # the emitted chain no longer exports the name
    am = [b for b in F.bodies if b["path"].endswith("PublicRangeFinder::analyze_module_info")]
    if not R.ob("C09-T", "tracer found", len(am) == 1, "analyze_module_info not found"):
        return
    am = am[0]
    ok = False
    for m in [n for n in am["_nodes"] if n["k"] == "Match" and tyc(F, n["scrut"], "ResolvedExportOrReExportAllPath")]:
        for arm in m["arms"]:
            if "ReExportAllPath" in pat_text(arm["pat"]).split("(")[0]:
                binds = {b_["lid"] for b_ in pat_bindings(arm["pat"])}
                vals = []
                _tail_values(F, arm["body"], vals)
                if vals and all(peel_value(v).get("k") == "Field" and peel_value(v)["field"] == "referrer_module" and peel_value(peel_value(v)["e"]).get("lid") in binds for v in vals):
                    ok = True
    R.ob("C09-T", "a name found through `export *` is traced at the re-exporting hop", ok,
         "analyze_module_info no longer maps a ReExportAllPath to its `referrer_module` when it queues the follow-up trace: intermediate `export *` statements of a chain are not retained, so an importer's `import { X } from './barrel.ts'` names an export the emitted barrel does not have",
         am["file"], key="C09|C09-T|star-chain-next-hop")
