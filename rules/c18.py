"""C18 — a graph segment is self-contained.

Decides:
  a. `ModuleGraph::segment` walks with follow_dynamic = true, the graph's own
     kind, check_js = True, prefer_fast_check_graph = false (so nothing the
     original could reach from those roots is left out).
  b. every entry kind yielded by the walk is copied (no catch-all): modules and
     errors into module_slots under the yielded specifier, redirects into
     redirects.
  c. the clone shortcut is only taken when every requested root is a root of
     the original; configured imports, packages and the node-specifier flag
     are carried over.
  s. (F8, known finding) the walk that feeds the segment must not skip loaded
     module slots: in a TypesOnly graph it does.
  w. the walk that feeds the segment (shared with C15/C02): enqueue-once
     discipline, edge selection per kind/option, types-only substitution only
     for a resolved types dependency, every redirect hop yielded.
"""
from .lib import *
from . import c15

EXPLANATION = "Field provenance of the WalkOptions literal in ModuleGraph::segment (T4), arm table of the copy loop (T8), guard of the clone shortcut (T5)."
EXPLANATION += " " + "Plus: the walker's enqueue and selection rules (shared with C15/C02), since the segment is exactly what the walk yields."
EXPLANATION += " " + "Plus C18-s: the walk feeding the segment must not skip loaded module slots (reports the known finding F8: TypesOnly graphs)."
NOT_DECIDED = "equality with a direct build of the roots"
CONFIGS = ["default", "nofastcheck"]  # thorough tier also analyses the build without fast_check / symbols
ASSUMPTIONS = []


def run(F, R, tier):
    sg = F.body("graph::ModuleGraph::segment")
    wo = [n for n in sg["_nodes"] if n["k"] == "Struct" and n.get("adt") == "graph::WalkOptions"]
    if R.ob("C18-a", "segment builds its walk options", len(wo) == 1, "shape changed", sg["file"]):
        f = {x["name"]: peel(x["e"]) for x in wo[0]["fields"]}
        R.ob("C18-a", "segment follows dynamic edges", f["follow_dynamic"].get("v") is True, "follow_dynamic = %s: dynamically imported modules are missing from the segment" % expr_text(f["follow_dynamic"]), where(wo[0]))
        k = peel_value(f["kind"])
        R.ob("C18-a", "segment walks with the graph's own kind", k.get("k") == "Field" and k["field"] == "graph_kind" and k.get("adt") == "graph::ModuleGraph" and peel_value(k["e"]).get("lid") == sg["body"]["params"][0].get("lid"), "kind = %s" % expr_text(f["kind"]), where(wo[0]))
        R.ob("C18-a", "segment treats every JS module as checkable", ctor_of(f["check_js"]) == "graph::CheckJsOption::True", "check_js = %s: type dependencies of JS modules are dropped" % expr_text(f["check_js"]), where(wo[0]))
        R.ob("C18-a", "segment walks the real dependencies, not the fast-check ones", f["prefer_fast_check_graph"].get("v") is False, "prefer_fast_check_graph = %s" % expr_text(f["prefer_fast_check_graph"]), where(wo[0]))
    walks = [n for n in sg["_nodes"] if callee_matches(n, ["ModuleGraph::walk"])]
    R.ob("C18-a", "segment uses the graph's walk from the requested roots", len(walks) == 1 and any(mentions_field(y, "roots") or peel_value(y).get("lid") == sg["body"]["params"][1].get("lid") or any(z.get("lid") == sg["body"]["params"][1].get("lid") for z in walk(y)) for y in through_locals(peel_value(walks[0]["args"][0]["recv"]) if walks[0]["args"][0].get("k") == "MethodCall" else walks[0]["args"][0])) or len(walks) == 1 and any(z.get("res") == "local" and any(w.get("lid") == sg["body"]["params"][1].get("lid") for i_ in through_locals(z) for w in walk(i_)) for z in walk(walks[0]["args"][0])), "shape changed", sg["file"])
    # ---------------- C18-b ------------------------------------------------
    mm = [n for n in walk(sg["body"]) if n["k"] == "Match" and tyc(F, n["scrut"], "graph::ModuleEntryRef")]
    if R.ob("C18-b", "copy loop found", len(mm) == 1, "shape changed", sg["file"]):
        covered = set()
        ca = False
        lp = [a for a in k_ancestors(mm[0]) if a["k"] == "For"]
        spec = None
        if lp:
            bs = pat_bindings(lp[0]["pat"])
            spec = bs[0]["lid"] if bs else None
        for arm in mm[0]["arms"]:
            v, c = pat_variants(arm["pat"])
            covered |= v
            ca = ca or c
            name = (sorted(v) or ["_"])[0].split("::")[-1]
            ins = [n for n in walk(arm["body"]) if n.get("k") == "MethodCall" and n["name"] == "insert"]
            ok = False
            why = "no insert"
            if len(ins) == 1:
                tgt = peel(ins[0]["recv"]).get("field")
                key = peel_value(ins[0]["args"][0])
                val = peel(ins[0]["args"][1])
                if name == "Module":
                    ok = tgt == "module_slots" and ctor_of(val) == "graph::ModuleSlot::Module" and key.get("lid") == spec
                elif name == "Err":
                    ok = tgt == "module_slots" and ctor_of(val) == "graph::ModuleSlot::Err" and key.get("lid") == spec
                elif name == "Redirect":
                    ok = tgt == "redirects" and key.get("lid") == spec
                why = "inserts into %s under `%s` value `%s`" % (tgt, expr_text(ins[0]["args"][0]), expr_text(val)[:40])
            R.ob("C18-b", "%s entries are copied under the yielded specifier" % name, ok, why, where(arm["body"]))
        allv = {v["path"] for v in F.adt("graph::ModuleEntryRef")["variants"]}
        R.ob("C18-b", "every entry kind is copied (no catch-all)", covered >= allv and not ca, "catch-all or missing entry kind", where(mm[0]))
    # ---------------- C18-c ------------------------------------------------
    rets = [n for n in sg["_nodes"] if n["k"] == "Ret" and any(callee_matches(x, ["std::clone::Clone::clone"]) or x.get("name") == "clone" for x in walk(n))]
    if R.ob("C18-c", "clone shortcut found", len(rets) == 1, "shape changed", sg["file"]):
        g = guards_at(F, rets[0])
        ok = any(x.kind == "cond" and x.pol and x.node.get("k") == "MethodCall" and x.node["name"] == "all" and any(y.get("name") == "contains" and field_of(y["recv"]) == "roots" for y in walk(x.node) if y.get("k") == "MethodCall") for x in g)
        R.ob("C18-c", "whole-graph clone only when every requested root is an original root", ok, "shortcut guard changed: %s" % [x.text()[:60] for x in g], where(rets[0]))
    for fld in ("imports", "packages"):
        c = [n for n in sg["_nodes"] if n.get("k") == "MethodCall" and n["name"] in ("clone_from",) and field_of(n["recv"]) == fld]
        R.ob("C18-c", "segment carries over %s" % fld, len(c) == 1 and peel_value(c[0]["args"][0]).get("field") == fld, "%s not copied from the original" % fld, sg["file"])
    a = [n for n in sg["_nodes"] if n["k"] == "Assign" and field_of(n["l"]) == "has_node_specifier"]
    R.ob("C18-c", "segment carries over has_node_specifier", len(a) == 1, "flag not copied", sg["file"])
    a = [n for n in sg["_nodes"] if n["k"] == "Assign" and field_of(n["l"]) == "roots"]
    R.ob("C18-c", "segment's roots are the requested roots", len(a) == 1 and any(w.get("lid") == sg["body"]["params"][1].get("lid") for z in walk(a[0]["r"]) if z.get("res") == "local" for i_ in through_locals(z) for w in walk(i_)), "roots not assigned", sg["file"])

    # the segment copies only what the walk yields: every hop of a redirect chain must be yielded
    nx = F.body("<graph::ModuleEntryIterator as std::iter::Iterator>::next")
    ms = [n for n in nx["_nodes"] if n["k"] == "Match" and mentions_field(n["scrut"], "previous_module")]
    ok = False
    for m in ms:
        for arm in m["arms"]:
            if "ModuleEntryRef::Redirect" in pat_text(arm["pat"]):
                binds = {b_["lid"] for b_ in pat_bindings(arm["pat"])}
                ps = [n for n in walk(arm["body"]) if n.get("k") == "MethodCall" and n["name"].startswith("push")]
                ok = len(ps) == 1 and any(peel_value(y).get("lid") in binds for y in through_locals(ps[0]["args"][0]))
    R.ob("C18-b", "the walk that feeds the segment yields every hop of a redirect chain", ok,
         "the walker jumps from a redirect entry to something other than the redirect's own target: hops in between are never yielded, so the segment loses their redirects", nx["file"])

    # ---------------- C18-s (F8) -------------------------------------------
    # segment() copies only what the walk yields and walks with the graph's own
    # kind.  Every lookup on the segment (resolve_dependency_from_dep with
    # prefer_types, try_get ..) consults module_slots of the *code* module, and a
    # direct build of the roots loads it too.  So the walk that feeds the segment
    # must not skip a ModuleSlot::Module entry unless a switch that segment()
    # can turn off guards the skip.
    skips = []
    for m_ in [n for n in nx["_nodes"] if n["k"] == "Match"]:
        for arm in m_["arms"]:
            if "graph::ModuleSlot::Module" in pat_text(arm["pat"]):
                skips += [c for c in walk(arm["body"], into_closures=False) if c["k"] == "Continue"]
    walker_fields = {"kind", "seen", "visiting", "check_js", "graph", "follow_dynamic", "prefer_fast_check_graph", "previous_module"}
    bad_skips = []
    for c in skips:
        g = guards_at(F, c)
        switch = [x for x in g if x.kind == "cond" and any(y.get("k") == "Field" and y.get("adt") == c15.IT and y["field"] not in walker_fields for y in walk(x.node))]
        if not switch:
            bad_skips.append(c)
    R.ob("C18-s", "the walk that feeds the segment never skips a loaded module slot", not bad_skips,
         "ModuleEntryIterator::next skips (`continue`) a ModuleSlot::Module entry in types-only walks and ModuleGraph::segment walks with the graph's own kind: "
         "segmenting a TypesOnly graph drops every JS module that has a resolved types dependency (and unchecked JS), so `resolve_dependency(.., prefer_types = true)` "
         "answers None on the segment where the original answers the types module, and the segment lacks a module a direct build of the roots contains",
         where(bad_skips[0]) if bad_skips else "", key="C18|C18-s|segment-of-types-only-graph-drops-substituted-code-modules")

    # ---------------- C18-w ------------------------------------------------
    # the segment is exactly what the walk yields, so the walk's own selection
    # rules (which edges per kind, types-only substitution, enqueue-once) are
    # necessary conditions of this property too
    wb = [b for b in F.bodies if (b.get("self_adt") == c15.IT) and not b.get("derived")]
    c15.walker_enqueue(F, R, wb, tag="C18-w", pid="C18")
    c15.walker_selection(F, R, wb, tag="C18-w")
