"""C08 — module analysis finds every dependency once, with exact specifier ranges.

Exactly-once, unescaping and the offset arithmetic itself are NOT decided.
Decided:
  V. handler coverage: every swc AST node type that carries a module specifier
     (`src` string fields from the parser crate's own data model, plus the
     curated carriers TsImportType, CallExpr, TsImportEqualsDecl,
     TsModuleDecl) has a `visit_*` override in DependencyCollector; every
     override that is not a listed leaf calls `visit_children_with` on every
     path (so dependency syntax nested below it is still found).
  Q. quote flag agrees with the regex: each pragma finder whose regex wraps
     capture 1 in quote classes is used with is_specifier_quoteless = false,
     each `(\\S+)` finder with true; find_deno_types sets its own flag per
     capture group; the JSDoc site (ranges exclude the quotes) passes false.
  P. positions only through the text-info conversion: in the analyser,
     Position / PositionRange values are only constructed by
     Position::from_source_pos / PositionRange::from_source_range /
     comment_source_to_position_range, and no arithmetic is done on `.line` /
     `.character` (exemption: the legacy v1 manifest upgrade).
  A. the three import-attribute parsers accept the same key forms.
"""
import re
from .lib import *
from .lib import _tail_values

EXPLANATION = (
    "Handler coverage of DependencyCollector against the specifier-carrying node types found in swc_ecma_ast's crate metadata "
    "(T13) with a must-pass-through of visit_children_with in every non-leaf override (T2), literal-vs-usage agreement of the "
    "pragma regexes with the quote flag at each call site (T14), who-may-construct for Position / PositionRange and a ban on "
    "arithmetic over their fields (T3), sibling agreement of the attribute parsers (T12)."
)
EXPLANATION += " " + 'Plus: comment loops never stop early, JSDoc scan only for `/** */` comments, `with` wins over `assert` in dynamic-import options.'
NOT_DECIDED = "exactly-once, unescaping, the offset arithmetic (+2, +-1), behaviour under non-ASCII / CRLF inside SourceTextInfo, Dependency::includes geometry"
ASSUMPTIONS = ["swc's Visit trait dispatches visit_* per node type and visit_children_with recurses into all children"]

DC = "ast::dep::DependencyCollector"
LEAVES = {
    "visit_import_decl": "import declarations contain no nested dependency syntax (specifiers + attribute object of literals)",
    "visit_named_export": "export-from declarations likewise",
    "visit_export_all": "export * declarations likewise",
    "visit_ts_import_equals_decl": "import x = require('..') / entity names: no nested expressions",
}
CURATED = {"TsImportType": "visit_ts_import_type", "CallExpr": "visit_call_expr", "TsImportEqualsDecl": "visit_ts_import_equals_decl", "TsModuleDecl": "visit_ts_module_decl"}


def snake(name):
    return re.sub(r"(?<!^)(?=[A-Z])", "_", name).lower()


def visitor_coverage(F, R, tag="C08-V", pid="C08"):
    """every syntax that carries a module specifier has a handler, and handlers recurse"""
    overrides = {}
    for b in F.bodies:
        if b.get("self_adt") == DC and (b.get("impl_trait") or "").endswith("Visit"):
            overrides[b["path"].split("::")[-1]] = b
    R.floor(tag + " DependencyCollector visit overrides", len(overrides), 8)
    carriers = []
    for a in F.extern_adts:
        if a["kind"] != "struct" or a.get("crate") != "swc_ecma_ast":
            continue
        for f in a["variants"][0]["fields"]:
            if f["name"] == "src" and "Str" in f["ty"]:
                carriers.append(a["name"])
    R.floor(tag + " `src`-carrying node types in swc_ecma_ast", len(carriers), 3)
    R.analysed["src_carrying_node_types"] = sorted(carriers)
    for c in sorted(set(carriers)):
        m = "visit_" + snake(c)
        R.ob(tag, "node type %s (has a module-specifier `src`) is handled by %s" % (c, m), m in overrides,
             "swc_ecma_ast::%s carries a module specifier but DependencyCollector has no %s override: that syntax produces no dependency" % (c, m), "src/ast/dep.rs")
    for c, m in CURATED.items():
        R.ob(tag, "specifier carrier %s is handled by %s" % (c, m), m in overrides, "DependencyCollector lost its %s override" % m, "src/ast/dep.rs")
    for m, b in sorted(overrides.items()):
        if m in LEAVES:
            R.ob(tag, "%s is a leaf handler (reviewed)" % m, True, LEAVES[m], nontrivial=False)
            continue
        tg = lambda n: n.get("k") == "MethodCall" and n["name"] == "visit_children_with"
        bad, _ = must_pass(F, b["body"]["value"], tg)
        R.ob(tag, "%s recurses into its children on every path" % m, not bad,
             "a path through %s returns without `visit_children_with(self)`: dependency syntax nested below this node (e.g. an import() inside the arguments of another import()) is never visited" % m,
             where(bad[0][1]) if bad else b["file"], key="%s|%s|%s|no-recursion" % (pid, tag, m))
    return overrides


def run(F, R, tier):
    # ---------------- C08-V ------------------------------------------------
    overrides = visitor_coverage(F, R)
    # every override records through self.items.push (handlers that produce a descriptor)
    for m in ("visit_import_decl", "visit_named_export", "visit_export_all", "visit_ts_import_type", "visit_call_expr", "visit_ts_import_equals_decl", "visit_ts_module_decl"):
        b = overrides.get(m)
        if b:
            ps = [n for n in b["_nodes"] if n.get("k") == "MethodCall" and n["name"] == "push" and field_of(n["recv"]) == "items"]
            R.ob("C08-V", "%s records a dependency descriptor" % m, len(ps) == 1, "%s pushes %d descriptors (expected exactly one site)" % (m, len(ps)), b["file"])
            for p in ps:
                st = [s for s in walk(p) if s.get("k") == "Struct" and (s.get("adt") or "").endswith("DependencyDescriptor")]
                if st:
                    f = {x["name"]: x["e"] for x in st[0]["fields"]}
                    rng = f.get("specifier_range") or f.get("argument_range")
                    sp = f.get("specifier")
                    if rng is not None and sp is not None:
                        # the range is taken from the same node the specifier text comes from
                        rn = [x for x in walk(rng) if x.get("k") == "MethodCall" and x["name"] == "range"]
                        ok = bool(rn) and expr_text(peel_value(rn[0]["recv"])) in expr_text(sp)
                        R.ob("C08-V", "%s: specifier range is the range of the node the specifier text is read from" % m, ok,
                             "specifier `%s` but range `%s`" % (expr_text(sp)[:50], expr_text(rng)[:50]), where(st[0]))

    # every comment is inspected: the loops that scan a module's comments for pragmas and
    # JSDoc imports never stop early (comment order is unspecified: `iter_unstable`)
    n_cl = 0
    for b in F.bodies:
        if b.get("derived") or b["file"] != "src/ast/mod.rs":
            continue
        for lp in [n for n in b["_nodes"] if n["k"] == "For"]:
            binds = pat_bindings(lp["pat"])
            if not (tyc(F, lp["iter"], "Comment") or any(tyc(F, b_, "comments::Comment") or tyc(F, b_, "::Comment") for b_ in binds)):
                continue
            n_cl += 1
            early = []
            for x in walk(lp["body"]):
                if x.get("k") in ("Break", "Ret"):
                    inner = [a for a in k_ancestors(x) if a.get("k") in ("For", "While", "Loop", "Closure") and is_within(a, lp["body"])]
                    if inner:
                        continue
                    early.append(x)
            R.ob("C08-V", "every comment is inspected by %s" % b["path"].split("::")[-1], not early,
                 "the comment loop of %s can stop early (`%s`): pragmas / JSDoc imports in comments visited later are not reported" % (b["path"].split("::")[-1], expr_text(early[0])[:20] if early else ""), where(early[0]) if early else "")
    R.floor("C08-V comment loops", n_cl, 2)

    # JSDoc imports are read from JSDoc comments only: block comments that start with `*`
    aj = F.body("ast::analyze_jsdoc_imports")
    scan = [n for n in aj["_nodes"] if n.get("k") == "MethodCall" and n["name"] == "match_indices"]
    if R.ob("C08-V", "JSDoc scan found", len(scan) >= 1, "analyze_jsdoc_imports no longer scans comment text for `{`", aj["file"]):
        g = guards_at(F, scan[0])
        is_block = any(x.kind == "cond" and x.pol and x.node.get("k") == "Binary" and x.node["op"] == "==" and any((ctor_of(peel(x.node[s_])) or "").endswith("CommentKind::Block") for s_ in ("l", "r")) for x in g)
        star = any(x.kind == "cond" and x.pol and x.node.get("k") == "MethodCall" and x.node["name"] == "starts_with" and any(y.get("k") == "Lit" and y.get("v") == "*" for y in walk(x.node)) for x in g)
        R.ob("C08-V", "only `/** .. */` comments are scanned for JSDoc imports", is_block and star,
             "the JSDoc scan is reached for comments that are not both block comments and `*`-prefixed (block=%s, star=%s): ordinary comments containing `{import(..)}` would add dependencies the module does not declare" % (is_block, star), where(scan[0]))

    # `with` takes precedence over the legacy `assert` key of a dynamic import's options
    pa = [b for b in F.bodies if b["file"] == "src/ast/dep.rs" and not b.get("derived") and any(n.get("k") == "Lit" and n.get("v") == "assert" for n in b["_nodes"]) and any(n.get("k") == "Lit" and n.get("v") == "with" for n in b["_nodes"]) and any(n["k"] == "For" for n in b["_nodes"])]
    if R.ob("C08-A", "options-object attribute parser found", len(pa) == 1, "no single function in src/ast/dep.rs scans for both `with` and `assert` keys", "src/ast/dep.rs"):
        b = pa[0]
        flags = [n for n in b["_nodes"] if n["k"] == "Assign" and peel(n["r"]).get("k") == "Binary" and any(peel(peel(n["r"])[s_]).get("v") == "with" for s_ in ("l", "r"))]
        ok = len(flags) == 1 and peel(flags[0]["r"])["op"] == "=="
        if ok:
            lid = peel(flags[0]["l"]).get("lid")
            g = guards_at(F, flags[0])
            # the guard that admits a key: with, or assert only if no with was seen
            adm = [x for x in g if x.kind == "cond" and x.pol and x.node.get("k") == "Binary" and x.node["op"] == "||"]
            ok = bool(adm) and any(is_neg_of_local(y, lid) for x in adm for y in walk(x.node) if y.get("k") == "Unary")
        R.ob("C08-A", "an `assert` key is ignored once a `with` key was seen", ok, "the seen-`with` flag is not set by `key == \"with\"` or does not gate the `assert` key: `import(x, { with: A, assert: B })` would take B", where(flags[0]) if flags else b["file"])

    # ---------------- C08-Q ------------------------------------------------
    finders = {}
    for b in F.bodies:
        if b["file"] != "src/analysis.rs" or not b["path"].startswith("analysis::find_"):
            continue
        lits = [n["v"] for n in b["_nodes"] if n.get("k") == "Lit" and n.get("lk") == "str" and "(" in str(n.get("v"))]
        # statics (Lazy<Regex>) are separate bodies nested under the fn
        for sb in F.bodies:
            if sb["path"].startswith(b["path"] + "::"):
                lits += [n["v"] for n in sb["_nodes"] if n.get("k") == "Lit" and n.get("lk") == "str" and "(" in str(n.get("v"))]
        if lits:
            finders[b["path"].split("::")[-1]] = lits[0]
    R.floor("C08-Q pragma finders with a regex", len(finders), 8)
    R.analysed["pragma_regexes"] = finders

    def quoted(rx):
        # capture group 1 is wrapped in quote classes:  ["']( ... )["']
        return re.search(r"\[\"'\]\(\[\^\"'\][*+]\)\[\"'\]", rx) is not None

    def quoteless(rx):
        return re.search(r"\(\\S\+\)", rx) is not None

    calls = [n for n in F.all_nodes() if callee_matches(n, ["ast::comment_source_to_position_range"])]
    R.floor("C08-Q comment range conversions", len(calls), 9)
    for c in calls:
        flag = peel(c["args"][3])
        rng = peel_value(c["args"][1])
        producer = None
        # range arg: `m.range()` where m is bound from find_x(..)
        cand = rng
        if cand.get("k") == "MethodCall" and cand["name"] == "range":
            cand = peel_value(cand["recv"])
        if cand.get("k") == "Field":
            cand = peel_value(cand["e"])
        if cand.get("res") == "local":
            for d in local_defs(c["_top"], cand["lid"]):
                if d[1] is not None:
                    for x in walk(d[1]):
                        if x.get("k") == "Call" and (x.get("fn") or "").startswith("analysis::find_"):
                            producer = x["fn"].split("::")[-1]
        inst = "%s <- %s" % (c["_top"]["path"].split("::")[-1], producer or "jsdoc parser")
        if producer == "find_deno_types":
            ok = flag.get("k") == "Field" and flag["field"] == "is_quoteless"
            R.ob("C08-Q", "quote flag of %s comes from the match itself" % inst, ok, "flag is `%s`" % expr_text(c["args"][3]), where(c))
        elif producer in finders:
            rx = finders[producer]
            want = None
            if quoted(rx) and not quoteless(rx):
                want = False
            elif quoteless(rx) and not quoted(rx):
                want = True
            R.ob("C08-Q", "quote flag of %s agrees with the regex %r" % (inst, rx[-28:]), want is not None and flag.get("k") == "Lit" and flag.get("v") is want,
                 "regex of %s %s quotes around capture 1 but the range is computed with is_specifier_quoteless = %s: the reported range would be off by the quotes" % (producer, "has" if want is False else "has no", expr_text(c["args"][3])), where(c))
        else:
            # JSDoc: the parsers' ranges exclude the quotes consumed by parse_quote
            ok = flag.get("k") == "Lit" and flag.get("v") is False and "jsdoc" in c["_top"]["path"].lower()
            R.ob("C08-Q", "JSDoc import ranges are widened by the quotes", ok, "flag `%s` at a site without a regex producer" % expr_text(c["args"][3]), where(c))
    dt = F.body("analysis::find_deno_types")
    lits = [n for n in dt["_nodes"] if n["k"] == "Struct" and (n.get("adt") or "").endswith("DenoTypesPragmaMatch")]
    ok = len(lits) == 2
    if ok:
        for l in lits:
            f = {x["name"]: peel(x["e"]) for x in l["fields"]}
            g = guards_at(F, l)
            grp = None
            for x in g:
                if x.kind == "pat" and x.pol and x.scrut.get("k") == "MethodCall" and x.scrut["name"] == "get":
                    grp = peel(x.scrut["args"][0]).get("v")
            ok = ok and ((grp == 1 and f["is_quoteless"].get("v") is False) or (grp == 2 and f["is_quoteless"].get("v") is True))
    rx = finders.get("find_deno_types", "")
    R.ob("C08-Q", "@deno-types: capture 1 is the quoted form, capture 2 the quoteless one", ok and re.search(r"\[\"'\]\(\[\^\"'\]\+\)\[\"'\]\|\(\\S\+\)", rx) is not None,
         "find_deno_types maps capture groups to is_quoteless inconsistently with its regex", dt["file"])

    # ---------------- C08-P ------------------------------------------------
    allowed = {"graph::Position::from_source_pos", "graph::PositionRange::from_source_range", "ast::comment_source_to_position_range", "graph::Position::new", "graph::Position::zeroed", "graph::PositionRange::zeroed"}
    exempt_prefix = ("analysis::module_graph_1_to_2",)
    n_pos = 0
    for b in F.bodies:
        if b.get("derived") or not (b["file"].startswith("src/ast/") or b["file"] in ("src/analysis.rs",)):
            continue
        for n in b["_nodes"]:
            if n["k"] == "Struct" and n.get("adt") in ("graph::Position", "graph::PositionRange"):
                n_pos += 1
                ok = b["path"] in allowed or b["path"].startswith(exempt_prefix)
                R.ob("C08-P", "%s literal in %s" % (n["adt"].split("::")[-1], b["path"]), ok,
                     "a %s is assembled by hand in %s instead of through the text-info conversion: byte offsets and UTF-16 columns / line starts would be mixed up" % (n["adt"].split("::")[-1], b["path"]), where(n))
            if n["k"] in ("Binary", "AssignOp") and n.get("op") in ("+", "-", "+=", "-=", "*"):
                for side in ("l", "r"):
                    x = peel_value(n[side])
                    if x.get("k") == "Field" and x.get("adt") == "graph::Position" and x["field"] in ("line", "character"):
                        ok = b["path"].startswith(exempt_prefix)
                        R.ob("C08-P", "arithmetic on Position.%s in %s" % (x["field"], b["path"]), ok,
                             "`%s` does arithmetic on a line / character number (byte or code-unit counts are not interchangeable with positions when the text has non-ASCII characters)" % expr_text(n)[:70], where(n),
                             key="C08|C08-P|position-arithmetic|%s" % b["path"])
    R.floor("C08-P Position / PositionRange literals", n_pos, 3)
    cs = F.body("ast::comment_source_to_position_range")
    fp = [n for n in cs["_nodes"] if callee_matches(n, ["graph::Position::from_source_pos"])]
    R.ob("C08-P", "both ends of a comment range go through the text-info conversion", len(fp) == 2 and all(tyc(F, x["args"][1], "SourceTextInfo") for x in fp),
         "comment_source_to_position_range converts %d end(s) through Position::from_source_pos" % len(fp), cs["file"])
    pad = [n for n in cs["_nodes"] if n.get("k") == "LetStmt" and "init" in n and peel(n["init"]).get("k") == "If" and tyc(F, n["pat"], "usize")]
    ok = False
    if pad:
        i = peel(pad[0]["init"])
        ok = i.get("k") == "If" and peel(i["cond"]).get("lid") == cs["body"]["params"][3].get("lid") and [peel(x).get("v") for x in (peel(i["then"]).get("expr", i["then"]), peel(i["else"]).get("expr", i["else"]))] == [0, 1]
    R.ob("C08-P", "padding is 0 for quoteless and 1 for quoted specifiers", ok, "padding definition changed", cs["file"])

    fp_ = F.body("graph::Position::from_source_pos")
    lit = [n for n in fp_["_nodes"] if n["k"] == "Struct" and n.get("adt") == "graph::Position"]
    ok = len(lit) == 1
    if ok:
        f = {x["name"]: peel_value(x["e"]) for x in lit[0]["fields"]}
        def from_lc(e, fld):
            return e.get("k") == "Field" and e["field"] == fld and any(y.get("k") == "MethodCall" and y["name"] == "line_and_column_index" for z in through_locals(peel_value(e["e"])) for y in walk(z))
        ok = from_lc(f["line"], "line_index") and from_lc(f["character"], "column_index")
    R.ob("C08-P", "a Position is the (line, column) pair computed by the text info (character based, not byte offsets)", ok,
         "Position::from_source_pos no longer takes line / character from SourceTextInfo::line_and_column_index: with non-ASCII text before the specifier on its line every reported range is shifted", fp_["file"])
    # JSDoc `{ ... import("x") ... }`: the scan from `{` to `import` stops at a closing brace
    pj = F.body("ast::parse_jsdoc_dynamic_import")
    tags = [n for n in pj["_nodes"] if n.get("k") == "Call" and (n.get("fn") or "").endswith("monch::tag") and peel(n["args"][0]).get("v") == "import"]
    brace = []
    for n in pj["_nodes"]:
        if n.get("k") == "Binary" and n["op"] == "==" and any(peel(n[s_]).get("k") == "Lit" and peel(n[s_]).get("v") == "}" for s_ in ("l", "r")):
            p_ = n["_p"]
            if p_.get("k") == "If" and diverges(F, p_["then"]) and (not tags or may_reach(F, n, tags[0]) or n["id"] < tags[0]["id"]):
                brace.append(n)
    R.ob("C08-V", "a JSDoc type import is only recognised inside one `{...}` (the scan to `import` stops at `}`)", len(tags) == 1 and len(brace) >= 1,
         "parse_jsdoc_dynamic_import no longer bails out at a closing brace before `import`: prose after a closed JSDoc type that mentions import(\"...\") is reported as a dependency", pj["file"])

    # ---------------- C08-A ------------------------------------------------
    forms = {}
    for fn in ("ast::dep::parse_import_attributes", "ast::dep::parse_import_attributes_from_object_lit", "ast::dep::parse_dynamic_import_attributes"):
        b = F.body(fn)
        names = set()
        for n in b["_nodes"]:
            if n["k"] == "Pat":
                for v in pat_variants(n)[0]:
                    if "PropName::" in v:
                        names.add(v.split("::")[-1])
        # helper functions they call
        for c in b["_nodes"]:
            if c.get("k") == "Call" and (c.get("fn") or "").startswith("ast::dep::"):
                hb = F.by_path.get(c["fn"])
                if hb:
                    for n in hb[0]["_nodes"]:
                        if n["k"] == "Pat":
                            for v in pat_variants(n)[0]:
                                if "PropName::" in v:
                                    names.add(v.split("::")[-1])
        forms[fn.split("::")[-1]] = names
    ref = forms["parse_import_attributes_from_object_lit"] or forms["parse_import_attributes"]
    for k, v in forms.items():
        if not v:
            continue
        R.ob("C08-A", "%s accepts the same attribute key forms as its siblings" % k, v == ref, "%s accepts %s, siblings %s" % (k, sorted(v), sorted(ref)), "src/ast/dep.rs")

    # ---------------- later (round 6) ---------------------------------------
    # C08-U: specifier text of a template-literal argument is the *cooked*
    # (unescaped) text of each quasi, never the raw source slice
    n_cooked = 0
    for b in F.bodies:
        if b["file"] != "src/ast/dep.rs":
            continue
        for n in b["_nodes"]:
            if n.get("k") == "Field" and (n.get("adt") or "").endswith("swc_ecma_ast::TplElement"):
                if n["field"] == "cooked":
                    n_cooked += 1
                elif n["field"] == "raw":
                    R.violation("C08-U", "template quasi read through `raw`", "the dependency collector reads `TplElement::raw` (the source slice, escapes not processed): a template-literal import()/require() argument containing an escape (`\\u00e9`, `\\x61`, line continuation, CRLF) is reported with a different specifier text than the same specifier written as a string literal", where(n), key="C08|C08-U|tpl-raw|%s" % b["path"].split("::")[-1])
            if n.get("k") == "Field" and (n.get("adt") or "").endswith("swc_ecma_ast::Str") and n["field"] == "raw":
                R.violation("C08-U", "string literal read through `raw`", "the dependency collector reads `Str::raw` (quotes and escapes unprocessed) instead of `value`", where(n), key="C08|C08-U|str-raw|%s" % b["path"].split("::")[-1])
    R.floor("C08-U cooked reads of template quasis in the dependency collector", n_cooked, 2)
    R.ob("C08-U", "template-literal arguments are reported with their cooked text", n_cooked >= 2, "no `cooked` read left")

    # C08-I: a position lookup compares whole (line, character) positions
    # lexicographically: Position derives PartialOrd with `line` declared before
    # `character`, and PositionRange::includes compares Position values, never
    # the components on their own
    pos = F.adt("graph::Position")
    flds = [f["name"] for f in pos["variants"][0]["fields"]]
    derived_ord = any((i if isinstance(i, str) else i.get("trait")) == "std::cmp::PartialOrd" for i in pos["impls"])
    R.ob("C08-I", "Position orders lexicographically by (line, character)", flds[:2] == ["line", "character"] and derived_ord, "fields %s / PartialOrd %s" % (flds, derived_ord), pos["file"])
    inc = F.body("graph::PositionRange::includes")
    comp = [n for n in inc["_nodes"] if (n.get("k") == "Field" and n.get("adt") == "graph::Position" and n["field"] in ("line", "character"))]
    cmps = [n for n in inc["_nodes"] if n.get("k") == "Binary" and n["op"] in (">=", "<=", ">", "<") and ty_is(F, n["l"], "graph::Position") and ty_is(F, n["r"], "graph::Position")]
    R.ob("C08-I", "PositionRange::includes compares whole positions against both ends", not comp and len(cmps) >= 2 and any(mentions_field(c, "start") for c in cmps) and any(mentions_field(c, "end") for c in cmps),
         "PositionRange::includes tests line and character separately (%d component reads, %d whole-position comparisons): a specifier range that spans a line break no longer contains the positions inside it, so Dependency::includes / position lookups miss it" % (len(comp), len(cmps)), inc["file"],
         key="C08|C08-I|includes-componentwise")
