"""C03 — builds terminate with every reachable specifier settled under any faults.

Decides the structural clauses:
  a. `ModuleSlot::Pending` is constructed only next to a queued load future.
  b. every field of the pending-state structs is classified; every work queue
     has a drain site reachable from `resolve_pending`, the four loop-driving
     queues occur in its loop guard and the two others are drained on every
     path to its normal `false` return.
  c. every completed load settles a slot (error arm, module arm, external arm,
     redirect arm re-enters the loader with the response's own count).
  d. a redirect response is only produced when it makes progress (target differs
     from the specifier that was loaded) — otherwise the slot stays Pending.
  e. redirect chains are bounded by `max_redirects` and the count is threaded.
  f. PU: no unwrap / expect / panicking macro / index in build-reachable code of
     the anchor files operates on data derived from loader / registry / npm
     responses, except reviewed exemptions.
  g. loader-result matches have no catch-all that turns an outcome into success.
"""
from .lib import *
from .lib import _tail_values

EXPLANATION = (
    "Who-may-construct and create/queue pairing for ModuleSlot::Pending (T3/T10), classification and drain coverage of every "
    "pending-state field (T1/T2), slot-settling on every arm of the response handlers (T2/T8), guard dominance at the only "
    "Redirect producer (T5), interprocedural provenance of the redirect counter (T4), and a taint rule from declared untrusted "
    "sources (loader responses, registry JSON, npm resolver results) to every panic site reachable from the build entry points (PU)."
)
EXPLANATION += " " + 'Plus: positional attribution of batched npm answers, the cached-manifest probe always leaves its memo entry, awaiting a spawned task drives the future returned by the executor.'
NOT_DECIDED = "that modules not depending on a failure load exactly as without it; termination of arbitrary Loader futures; panics inside dependencies (swc, url, deno_media_type)"
CONFIGS = ["default", "nofastcheck"]  # thorough tier also analyses the build without fast_check / symbols
ASSUMPTIONS = [
    "loader futures complete (termination of foreign code is not decided)",
    "taint sources are the declared loader/registry/npm response types; values reachable only through `self` receivers are not followed interprocedurally",
]

PENDING_CLASSES = {
    ("graph::PendingState", "pending"): "queue",
    ("graph::PendingState", "deferred"): "queue",
    ("graph::PendingState", "dynamic_branches"): "queue",
    ("graph::PendingState", "jsr"): "nested",
    ("graph::PendingState", "npm"): "nested",
    ("graph::PendingJsrState", "pending_resolutions"): "queue",
    ("graph::PendingJsrState", "pending_content_loads"): "queue",
    ("graph::PendingJsrState", "metadata"): "store",
    ("graph::PendingNpmState", "pending_resolutions"): "queue",
    ("graph::PendingNpmState", "requested_registry_info_loads"): "memo",
}
LOOP_GUARD_QUEUES = ["pending", "pending_resolutions", "dynamic_branches", "deferred"]
DRAIN_FNS = ("std::mem::take", "futures::StreamExt::next", "std::collections::VecDeque::pop_front", "std::vec::Vec::drain", "std::mem::replace")

# PU: reviewed exemptions, keyed (function path suffix, sink text)
PU_EXEMPT = {
    ("ProvidedModuleAnalyzer as analysis::ModuleAnalyzer>::analyze", "__self.0.borrow_mut().take().unwrap()"):
        "the Option is filled at construction and `analyze` is invoked exactly once per parse (call-count invariant, not data dependent)",
    ("graph::Builder::handle_jsr_registry_pending_content_loads", "self.graph.module_slots.get_mut(&specifier).unwrap()"):
        "guarded by `specifier == item.specifier`; the slot for item.specifier is inserted by visit() right after the content load is queued and module slots are never removed except Pending ones",
    ("graph::NpmSpecifierResolver::resolve", "assert_eq!"):
        "documented NpmResolver contract: resolve_pkg_reqs MUST return one result per request 'or else a panic will occur'",
    ("graph::NpmSpecifierResolver::resolve", "items_by_req.get(&req).unwrap()"):
        "req iterates the keys of items_by_req itself (zip with results only shortens)",
    ("graph::NpmSpecifierResolver::resolve", "result.results.remove(0)"):
        "dominated by assert_eq!(result.results.len(), 1) (contract above)",
}


def in_anchor_files(b):
    f = b["file"]
    return f in ("src/graph.rs", "src/jsr.rs", "src/packages.rs", "src/rt.rs")


def run(F, R, tier):
    _round6(F, R)
    # ---------------- C03-a ------------------------------------------------
    pend = [n for n in F.all_nodes() if ctor_of(n) == "graph::ModuleSlot::Pending" and not n["_top"].get("derived")]
    R.floor("C03-a constructions of ModuleSlot::Pending", len(pend), 2)
    allowed = {"graph::Builder::load_pending_module", "graph::Builder::load_jsr_subpath"}
    for c in pend:
        b = c["_top"]
        if b["path"] not in allowed:
            R.violation("C03-a", "Pending constructed in %s" % b["path"], "ModuleSlot::Pending constructed outside the two load functions: nothing guarantees a future that will settle it", where(c))
            continue

        def is_push(n):
            return n.get("k") == "MethodCall" and n["name"] in ("push_back", "push") and field_of(n["recv"]) == "pending"

        # either the push dominates the construction, or every path after the construction passes the push
        fl = Flow(F, is_target=is_push, probe=lambda n: n is c)
        fl.run(b["body"]["value"], False)
        before = bool(fl.probes) and all(st is True for _, st in fl.probes)
        bad, _ = must_pass(F, b["body"]["value"], is_push, is_reset=lambda n: n is c, init=True)
        after = not bad
        R.ob("C03-a", "Pending slot in %s is paired with a queued load future on every path" % b["path"], before or after,
             "a path through the construction of ModuleSlot::Pending does not push a future onto state.pending: the slot would never be settled", where(c))

    # ---------------- C03-b ------------------------------------------------
    rp = F.body("graph::Builder::resolve_pending")
    reach = F.reachable_from([rp["path"]])
    queues = []
    for adt in ("graph::PendingState", "graph::PendingJsrState", "graph::PendingNpmState"):
        a = F.adt(adt)
        for f in a["variants"][0]["fields"]:
            cls = PENDING_CLASSES.get((adt, f["name"]))
            R.ob("C03-b", "field %s.%s is classified (%s)" % (adt, f["name"], cls), cls is not None,
                 "new field %s.%s of the pending state is not classified as queue / memo / store: if it holds work, nothing is known to drain it" % (adt, f["name"]), a["file"])
            if cls == "queue":
                queues.append((adt, f["name"]))
    R.floor("C03-b work queues", len(queues), 6)
    for adt, fname in queues:
        drains = []
        for p in reach:
            for b in F.by_path.get(p, []):
                for n in b["_nodes"]:
                    if n["k"] not in ("Call", "MethodCall"):
                        continue
                    fn = n.get("fn") or ""
                    if not (fn in DRAIN_FNS or fn.endswith("StreamExt::next") or n.get("name") in ("next", "pop_front", "drain")):
                        continue
                    for a in call_args(n):
                        x = peel(a)
                        if x.get("k") == "Field" and x["field"] == fname and x.get("adt") == adt:
                            drains.append(n)
        R.ob("C03-b", "queue %s.%s has a drain site reachable from resolve_pending" % (adt, fname), len(drains) >= 1,
             "no take/next/pop_front/drain of %s.%s in any function reachable from Builder::resolve_pending" % (adt, fname), rp["file"])
    # loop guard
    loops = [n for n in walk(rp["body"]) if n["k"] == "While"]
    if R.ob("C03-b", "resolve_pending has its driving loop", len(loops) >= 1, "no while loop in resolve_pending", rp["file"]):
        lp = loops[0]
        gtxt = expr_text(lp["cond"])
        guard_fields = set()
        for n in walk(lp["cond"]):
            if n.get("k") == "MethodCall" and n["name"] == "is_empty":
                x = peel(n["recv"])
                if x.get("k") == "Field":
                    guard_fields.add(x["field"])
        for q in LOOP_GUARD_QUEUES:
            R.ob("C03-b", "loop guard of resolve_pending tests %s.is_empty()" % q, q in guard_fields,
                 "the driving loop can exit while `%s` still holds work" % q, where(lp))
        # post-loop drains on every normal `false` return
        for nm in ("handle_jsr_registry_pending_content_loads", "NpmSpecifierResolver::fill_builder"):
            tgt = lambda n, nm=nm: callee_matches(n, [nm])
            fl = Flow(F, tgt, enter_closure=is_async_fn_closure)
            fl.run(rp["body"]["value"], False)
            bad = []
            for kind, node, st in fl.exits:
                if kind == "return":
                    v = peel(node.get("e", {}))
                    if v.get("k") == "Lit" and v.get("v") is True:
                        continue  # restart requested: state is reset by restart()
                if kind in ("return", "fallthrough") and st is False:
                    bad.append((kind, node))
            R.ob("C03-b", "every normal exit of resolve_pending passes %s" % nm, not bad,
                 "a path returns from resolve_pending without draining through %s" % nm, where(bad[0][1]) if bad else "")

    # ---------------- C03-c ------------------------------------------------
    # resolve_pending: Err arm stores the error under the error's specifier
    arms_checked = 0
    for m in [n for n in walk(rp["body"]) if n["k"] == "Match"]:
        for arm in m["arms"]:
            if pat_text(arm["pat"]).startswith("std::result::Result::Err(") and tyc(F, m["scrut"], "Result<graph::PendingInfoResponse"):
                arms_checked += 1
                bs = pat_bindings(arm["pat"])
                err_lid = bs[0]["lid"] if bs else None

                def is_store(n):
                    if not (n.get("k") == "MethodCall" and n["name"] == "insert" and field_of(n["recv"]) == "module_slots"):
                        return False
                    v = peel(n["args"][1])
                    return ctor_of(v) == "graph::ModuleSlot::Err" and peel_value(v["args"][0]).get("lid") == err_lid

                bad, _ = must_pass(F, arm["body"], is_store, exit_kinds=("fallthrough", "return", "break", "continue"))
                R.ob("C03-c", "failed load is stored as ModuleSlot::Err on every path", not bad,
                     "resolve_pending's Err arm can complete without inserting ModuleSlot::Err(err): the requested specifier stays Pending", where(arm["body"]))
                stores = [n for n in walk(arm["body"]) if is_store(n)]
                for s in stores:
                    key = peel_value(s["args"][0])
                    ok = key.get("k") == "MethodCall" and key["name"] == "specifier" and peel_value(key["recv"]).get("lid") == err_lid
                    R.ob("C03-c", "error stored under the error's own specifier", ok, "ModuleSlot::Err stored under `%s`" % expr_text(s["args"][0]), where(s))
                chk = [n for n in walk(arm["body"]) if callee_matches(n, ["Builder::check_specifier"])]
                R.ob("C03-c", "redirect of a failed load is recorded (check_specifier) before the error is stored", bool(chk) and bool(stores) and may_reach(F, chk[0], stores[0]),
                     "Err arm does not call check_specifier before storing the error: the requested specifier keeps its Pending slot", where(arm["body"]))
            if pat_text(arm["pat"]).startswith("std::result::Result::Ok(") and tyc(F, m["scrut"], "Result<graph::PendingInfoResponse"):
                arms_checked += 1
                chk = [n for n in walk(arm["body"]) if callee_matches(n, ["Builder::check_specifier"])]
                vis = [n for n in walk(arm["body"]) if callee_matches(n, ["Builder::visit"])]
                R.ob("C03-c", "successful load: check_specifier then visit", bool(chk) and bool(vis) and may_reach(F, chk[0], vis[0]),
                     "Ok arm of resolve_pending does not call check_specifier before visit", where(arm["body"]))
                bad, _ = must_pass(F, arm["body"], lambda n: callee_matches(n, ["Builder::visit"]), exit_kinds=("fallthrough", "return", "break", "continue"))
                R.ob("C03-c", "successful load is visited on every path", not bad, "a path through the Ok arm skips visit()", where(arm["body"]))
    R.floor("C03-c result arms in resolve_pending", arms_checked, 2)

    vis = F.body("graph::Builder::visit")
    vm = [n for n in walk(vis["body"]) if n["k"] == "Match" and (F.ty(n["scrut"]) or "") == "graph::PendingInfoResponse"]
    if R.ob("C03-c", "visit matches on the response", len(vm) >= 1, "no match on `response` in visit", vis["file"]):
        m = vm[0]
        covered = set()
        catch_all = False
        for arm in m["arms"]:
            vs, ca = pat_variants(arm["pat"])
            covered |= vs
            catch_all = catch_all or ca
            name = (sorted(vs) or ["_"])[0].split("::")[-1]
            binds = {b["name"]: b["lid"] for b in pat_bindings(arm["pat"])}
            spec = binds.get("specifier")

            def writes_slot(n):
                if n.get("k") == "MethodCall" and n["name"] == "insert" and field_of(n["recv"]) == "module_slots":
                    return peel_value(n["args"][0]).get("lid") == spec
                if n.get("k") == "Assign":
                    # *entry = ModuleSlot::..  where entry = module_slots.get_mut(&specifier)
                    l = peel(n["l"])
                    if l.get("res") == "local":
                        for d in local_defs(vis, l["lid"]):
                            if d[1] is not None and any(x.get("name") == "get_mut" and field_of(x["recv"]) == "module_slots" for x in walk(d[1]) if x.get("k") == "MethodCall"):
                                return True
                return False

            if name == "Module":
                bad, _ = must_pass(F, arm["body"], writes_slot, exit_kinds=("fallthrough", "return", "break", "continue"))
                R.ob("C03-c", "visit/Module writes the slot of the response specifier on every path", not bad,
                     "a path through visit's Module arm does not insert into module_slots under the response's specifier", where(arm["body"]))
            elif name == "External":
                def hook(c):
                    c = peel(c)
                    if c.get("k") == "MethodCall" and (c.get("fn") or "").endswith("ModuleSlot::is_pending"):
                        return (False, True)  # not pending => already settled
                    return None
                fl = Flow(F, writes_slot, cond_hook=hook)
                fl.run(arm["body"], False)
                bad = [(k_, n_) for k_, n_, st in fl.exits if st is False]
                R.ob("C03-c", "visit/External settles the slot unless it is already settled", not bad,
                     "a path through visit's External arm leaves the slot untouched although it may be Pending", where(arm["body"]))
                # ... and never overwrites an entry that is already settled
                for w in [n for n in walk(arm["body"]) if writes_slot(n)]:
                    g = guards_at(F, w, stop_at=arm)
                    if w.get("k") == "Assign":
                        ok = any(x.kind == "cond" and x.pol and (x.node.get("fn") or "").endswith("ModuleSlot::is_pending") for x in g)
                        why = "`*entry = External` is not guarded by entry.is_pending()"
                    else:
                        ok = any(x.kind == "pat" and not x.pol and pat_text(x.pat).startswith("std::option::Option::Some(") and any(y.get("name") in ("get_mut", "get") and field_of(y["recv"]) == "module_slots" for y in walk(x.scrut) if y.get("k") == "MethodCall") for x in g)
                        why = "module_slots.insert of the External marker is not confined to the case where the specifier has no slot yet"
                    R.ob("C03-c", "visit/External never overwrites a settled entry", ok,
                         why + ": a loader answering External{other specifier} would replace an already loaded module by an external marker", where(w),
                         key="C03|C03-c|external-overwrites-settled")
            elif name == "Redirect":
                calls = [n for n in walk(arm["body"]) if callee_matches(n, ["Builder::load_with_redirect_count"])]
                bad, _ = must_pass(F, arm["body"], lambda n: callee_matches(n, ["Builder::load_with_redirect_count"]), exit_kinds=("fallthrough", "return", "break", "continue"))
                R.ob("C03-c", "visit/Redirect re-enters the loader on every path", not bad and bool(calls), "visit's Redirect arm does not call load_with_redirect_count", where(arm["body"]))
                for c in calls:
                    a0 = peel_value(c["args"][0])
                    R.ob("C03-e", "redirect follow-up carries the response's own count", a0.get("lid") == binds.get("count") and binds.get("count") is not None,
                         "load_with_redirect_count is called with `%s` instead of the count carried by the Redirect response: redirect chains are no longer bounded" % expr_text(c["args"][0]), where(c))
                    lit = [s for s in walk(c) if s.get("k") == "Struct" and s.get("adt") == "graph::LoadOptionsRef"]
                    if lit:
                        sf = [f["e"] for f in lit[0]["fields"] if f["name"] == "specifier"][0]
                        R.ob("C03-c", "redirect follow-up loads the redirect target", peel_value(sf).get("lid") == spec,
                             "follow-up load uses `%s`" % expr_text(sf), where(c))
        adt = F.adt("graph::PendingInfoResponse")
        allv = {v["path"] for v in adt["variants"]}
        R.ob("C03-c", "visit handles every response kind explicitly", covered >= allv and not catch_all,
             "visit's match has a catch-all or misses %s" % sorted(allv - covered), where(m))

    # every pending npm specifier gets an entry (module stub or error) on every path
    nr = F.body("graph::NpmSpecifierResolver::resolve")
    n_loops = 0
    for lp in [n for n in nr["_nodes"] if n["k"] == "For"]:
        binds = pat_bindings(lp["pat"])
        if not binds or not any(tyc(F, b_, "graph::PendingNpmResolutionItem") for b_ in binds):
            continue
        lids_ = {b_["lid"] for b_ in binds}
        if any(n.get("k") == "MethodCall" and n["name"] in ("push", "push_back") and peel(n["args"][0]).get("lid") in lids_ for n in walk(lp["body"])):
            continue  # a grouping loop: the item is moved into a collection that a later loop settles
        n_loops += 1
        settle = lambda n: (n.get("k") == "MethodCall" and n["name"] == "insert" and field_of(n["recv"]) == "module_slots") or callee_matches(n, ["NpmSpecifierResolver::add_req_ref_for_item"])
        bad, _ = must_pass(F, lp["body"], settle, exit_kinds=("fallthrough", "continue", "break", "return"))
        R.ob("C03-c", "every pending npm specifier is settled (module stub or error entry) on every path", not bad,
             "a path through an npm resolution loop leaves the item without a module slot: the specifier would be missing from the graph without an error", where(lp))
    R.floor("C03-c npm item loops", n_loops, 3)
    # a healthy npm entry is only recorded after the resolver was asked about that very item
    for lp in [n for n in nr["_nodes"] if n["k"] == "For"]:
        binds = pat_bindings(lp["pat"])
        if not binds or not any(tyc(F, b_, "graph::PendingNpmResolutionItem") for b_ in binds):
            continue
        adds = [n for n in walk(lp["body"]) if callee_matches(n, ["NpmSpecifierResolver::add_req_ref_for_item"])]
        if not adds:
            continue
        rcalls = [n for n in walk(lp["body"]) if callee_matches(n, ["NpmResolver::resolve_pkg_reqs"])]
        if rcalls:
            fl = Flow(F, lambda n: n in rcalls, probe=lambda n: n in adds)
            fl.run(lp["body"], False)
            ok = bool(fl.probes) and all(st is True for _, st in fl.probes)
        else:
            outer = [n for n in nr["_nodes"] if callee_matches(n, ["NpmResolver::resolve_pkg_reqs"]) and may_reach(F, n, lp)]
            ok = bool(outer)
        R.ob("C03-c", "an npm specifier is recorded as resolved only after the resolver answered for it in this pass", ok,
             "a path records an npm specifier as a healthy module without a preceding resolve_pkg_reqs call for it: a failed requirement would be reported for the first specifier only and its siblings would look loaded", where(lp))
    # resolver answers are attributed to requirements by position: the request
    # list and the `results` of the answer are zipped as they are
    zips = [n for n in nr["_nodes"] if n.get("k") == "MethodCall" and n["name"] == "zip" and any(mentions_field(a_, "results") for a_ in n["args"])]
    if R.ob("C03-c", "batch npm answers are zipped with their requests", len(zips) == 1, "NpmSpecifierResolver::resolve no longer zips requests with result.results", nr["file"]):
        z = zips[0]
        def plain_iter(e):
            e = peel(e)
            if e.get("k") == "MethodCall" and e["name"] in ("into_iter", "iter") and not e.get("args"):
                return peel_value(e["recv"])
            return None
        lhs, rhs = plain_iter(z["recv"]), plain_iter(z["args"][0])
        if rhs is None:
            r0 = peel_value(z["args"][0])
            rhs = r0 if r0.get("k") == "Field" else None
        rq = [n for n in nr["_nodes"] if callee_matches(n, ["NpmResolver::resolve_pkg_reqs"]) and may_reach(F, n, z)]
        same_list = lhs is not None and lhs.get("res") == "local" and any(any(w.get("lid") == lhs["lid"] for w in walk(a_)) for q in rq for a_ in call_args(q)[1:])
        from_answer = rhs is not None and rhs.get("k") == "Field" and rhs["field"] == "results" and any(any(y is q or is_within(q, y) for q in rq) for y in through_locals(rhs["e"]))
        R.ob("C03-c", "the i-th answer is attributed to the i-th requirement", same_list and from_answer,
             "requests and answers are not paired position by position (`%s`): a failed requirement's error would be filed under another package's specifiers, which then look loaded" % expr_text(z)[:80], where(z))
    # the caller of the cached-manifest probe unwraps the memo entry of the package: the probe
    # leaves an entry on every path
    pc = F.body("graph::Builder::probe_cached_jsr_version_manifests")
    memo_p = [p_ for p_ in pc["body"]["params"] if tyc(F, p_, "CachedJsrVersionProbe")]
    users = [n for n in F.all_nodes() if n.get("k") == "MethodCall" and n["name"] in ("unwrap", "expect") and tyc(F, n["recv"], "CachedJsrVersionProbe") and peel(n["recv"]).get("k") == "MethodCall" and peel(n["recv"])["name"] == "get"]
    if users:
        is_entry = lambda n: n.get("k") == "MethodCall" and n["name"] in ("entry", "insert") and tyc(F, n["recv"], "HashMap<") and tyc(F, n["recv"], "CachedJsrVersionProbe")
        bad, _ = must_pass(F, pc["body"]["value"], is_entry, exit_kinds=("fallthrough", "return"))
        R.ob("C03-f", "the probe memo has an entry for the package after every probe (callers unwrap it)", bool(memo_p) and not bad,
             "a path through probe_cached_jsr_version_manifests returns without creating the memo entry, while `%s` in %s unwraps it: a requirement without probe candidates panics the build" % (expr_text(users[0])[:50], users[0]["_top"]["path"].split("::")[-1]), where(bad[0][1]) if bad else pc["file"])
    # the task future handed back by the executor is driven by whoever awaits the join handle
    jh = F.adt("rt::JoinHandle")
    futf = [f_["name"] for f_ in jh["variants"][0]["fields"] if "Future" in F.types[f_["ty"]] and "Receiver" not in F.types[f_["ty"]]]
    pl = [b for b in F.bodies if b["path"].endswith("::poll") and "rt::JoinHandle" in b["path"]]
    ok = False
    if futf and pl:
        polls = [n for n in pl[0]["_nodes"] if n.get("k") in ("MethodCall", "Call") and (n.get("name") == "poll" or (n.get("fn") or "").endswith("Future::poll")) and any(x.get("k") == "Field" and x["field"] in futf for x in walk(n))]
        rxp = [n for n in pl[0]["_nodes"] if n.get("k") in ("MethodCall", "Call") and (n.get("name") == "poll" or (n.get("fn") or "").endswith("Future::poll")) and any(x.get("k") == "Field" and x["field"] == "rx" for x in walk(n))]
        ok = len(polls) >= 1 and all(any(may_reach(F, p_, r_) for p_ in polls) for r_ in rxp)
    R.ob("C03-e", "awaiting a spawned task drives the task future returned by the executor", ok,
         "JoinHandle::poll does not poll the future returned by Executor::execute: with an executor that hands the task back instead of running it (the wasm default does), registry metadata loads never complete and the build never terminates", pl[0]["file"] if pl else "src/rt.rs")
    # every entry written while draining deferred content loads belongs to the completed item
    hc = F.body("graph::Builder::handle_jsr_registry_pending_content_loads")
    lp = [n for n in hc["_nodes"] if n["k"] == "While"]
    if lp and lp[0]["cond"].get("k") == "Let":
        item = pat_bindings(lp[0]["cond"]["pat"])[0]
        n_w = 0
        for n in walk(lp[0]["body"]):
            if n.get("k") == "MethodCall" and n["name"] in ("insert", "get_mut") and field_of(n["recv"]) == "module_slots":
                n_w += 1
                key = peel_value(n["args"][0])
                ok = any(k_.get("k") == "Field" and k_["field"] == "specifier" and peel(k_["e"]).get("lid") == item["lid"] for y_ in through_locals(n["args"][0]) for k_ in [peel_value(y_)])
                if not ok and key.get("res") == "local":
                    for g in guards_at(F, n, stop_at=lp[0]):
                        if g.kind == "cond" and g.pol and g.node.get("k") == "Binary" and g.node["op"] == "==":
                            l, r = peel_value(g.node["l"]), peel_value(g.node["r"])
                            if l.get("lid") == key.get("lid") and r.get("field") == "specifier" and peel(r["e"]).get("lid") == item["lid"]:
                                ok = True
                R.ob("C03-c", "a failed / completed content load is recorded under the specifier it was issued for", ok,
                     "module_slots.%s(%s, ..) while draining content loads: the error (or source) would land on another specifier, the affected module keeps an empty source without an error" % (n["name"], expr_text(n["args"][0])), where(n))
        R.floor("C03-c slot writes in the content-load drain", n_w, 5)
    fg = F.body("graph::NpmSpecifierResolver::fill_graph")
    keep = [n for n in fg["_nodes"] if n.get("k") == "MethodCall" and n["name"] in ("or_insert", "or_insert_with")]
    R.ob("C03-c", "npm results never overwrite an entry the graph already has", len(keep) == 2 and not [n for n in fg["_nodes"] if n.get("k") == "MethodCall" and n["name"] == "insert" and field_of(n["recv"]) in ("module_slots", "redirects")],
         "fill_graph writes module_slots / redirects other than through entry().or_insert()", fg["file"])

    # ---------------- C03-d / C03-e ----------------------------------------
    tl = F.body("try_load")
    reds = [n for n in F.all_nodes() if ctor_of(n) == "graph::PendingInfoResponse::Redirect" and not n["_top"].get("derived")]
    R.floor("C03-d Redirect producers", len(reds), 1)
    S = Slicer(F)
    for r in reds:
        g = guards_at(F, r)
        target = [f["e"] for f in r["fields"] if f["name"] == "specifier"][0]
        tl_ = peel_value(target)

        def is_progress(x):
            if x.kind != "cond" or x.node.get("k") != "Binary" or x.node["op"] not in ("==", "!="):
                return False
            want_pol = x.node["op"] == "!="
            if x.pol != want_pol:
                return False
            a, b_ = peel_value(x.node["l"]), peel_value(x.node["r"])
            names = {expr_text(a), expr_text(b_)}
            return tl_.get("res") == "local" and (a.get("lid") == tl_.get("lid") or b_.get("lid") == tl_.get("lid")) and any("load_specifier" in s for s in names)

        R.ob("C03-d", "a redirect response is only produced when the target differs from the loaded specifier", any(is_progress(x) for x in g),
             "PendingInfoResponse::Redirect is constructed without establishing `target != load_specifier`: a loader answering Redirect{same url} leaves the slot Pending forever (check_specifier is a no-op and load_with_redirect_count short-circuits on the existing Pending slot)",
             where(r), key="C03|C03-d|self-redirect|%s" % r["_top"]["path"].split("::")[-1])
        bounded = False
        for x in g:
            if x.kind == "cond" and not x.pol and x.node.get("k") == "Binary" and x.node["op"] in (">=", ">"):
                if callee_matches(peel(x.node["r"]), ["Loader::max_redirects"]):
                    bounded = True
                    cnt = peel_value(x.node["l"])
                    cf = [f["e"] for f in r["fields"] if f["name"] == "count"][0]
                    cfp = peel(cf)
                    inc = cfp.get("k") == "Binary" and cfp["op"] == "+" and peel_value(cfp["l"]).get("lid") == cnt.get("lid") and peel(cfp["r"]).get("v") == 1
                    R.ob("C03-e", "redirect response carries count + 1", inc, "Redirect.count is `%s`" % expr_text(cf), where(r))
                    leaves = S.origins(x.node["l"])
                    kinds = sorted({l.kind + ":" + str(l.what) for l in leaves})
                    ok = all((l.kind == "lit" and l.what == "0") or (l.kind == "computed" and "+ 1" in l.what) for l in leaves) and any(l.kind == "computed" for l in leaves)
                    R.ob("C03-e", "the bounded counter is threaded from the response back into the next load", ok,
                         "redirect_count compared with max_redirects originates from %s — expected only the literal 0 (fresh load) and `redirect_count + 1` (follow-up)" % kinds, where(x.node))
        R.ob("C03-e", "redirect production is bounded by Loader::max_redirects", bounded, "Redirect response not dominated by `!(redirect_count >= loader.max_redirects())`", where(r))

    # ---------------- C03-f (PU) -------------------------------------------
    roots = [p for p in ("graph::Builder::build", "graph::Builder::reload", "graph::ModuleGraph::build", "graph::ModuleGraph::reload") if p in F.by_path]
    reach_build = F.reachable_from(roots)
    T = Taint(
        F,
        source_calls=["NpmResolver::resolve_pkg_reqs", "JsrPackageVersionInfo::export", "JsrPackageVersionInfo::exports", "JsrPackageVersionInfo::module_info",
                      "JsrPackageVersionInfoExt::get_subpath"],
        source_fields=[("source::LoadResponse::Module", "content"), ("source::LoadResponse::Module", "specifier"), ("source::LoadResponse::Module", "maybe_headers"),
                       ("source::LoadResponse::Redirect", "specifier"), ("source::LoadResponse::External", "specifier"), ("source::CacheResponse::Redirect", "specifier"),
                       ("jsr::PendingJsrPackageVersionInfoLoadItem", "info")],
        source_types=["packages::JsrPackageVersionInfo", "packages::JsrPackageInfo", "std::sync::Arc<packages::JsrPackageVersionInfo", "std::sync::Arc<packages::JsrPackageInfo"],
    )
    n_sinks = 0
    n_tainted = 0
    for p in sorted(reach_build):
        for b in F.by_path.get(p, []):
            if not in_anchor_files(b) or b.get("derived"):
                continue
            for kind, node, op in panic_sinks(b):
                n_sinks += 1
                w = T.why(op)
                text = expr_text(node) if not kind.endswith("!") else kind
                inst = "%s|%s" % (b["path"], text)
                if not w:
                    R.ob("PU", inst, True, "operand does not derive from a declared untrusted source", nontrivial=False)
                    continue
                n_tainted += 1
                ex = None
                for (fn_suffix, sink), reason in PU_EXEMPT.items():
                    if b["path"].endswith(fn_suffix) and sink == text:
                        ex = reason
                if ex is None and kind == "unwrap":
                    # checked exemption: `store.get_*(key).unwrap()` dominated by `queue_load_*(key)` in the same body
                    rc = peel(op)
                    if rc.get("k") == "MethodCall" and rc["name"] in ("get_package_version_metadata", "get_package_metadata"):
                        key = peel_value(rc["args"][0])
                        qs = [q for q in b["_nodes"] if q.get("k") == "MethodCall" and q["name"].startswith("queue_load_package") and peel_value(q["args"][0]).get("lid") == key.get("lid") and may_reach(F, q, node)]
                        if qs:
                            ex = "lookup of a key that the dominating %s call has just inserted" % qs[0]["name"]
                if ex:
                    R.ob("PU", inst, True, "tainted (%s) — reviewed exemption: %s" % (w, ex))
                    continue
                R.violation("PU", inst,
                            "%s on a value derived from untrusted data (%s): a malformed loader / registry / npm response panics the build instead of becoming an error entry" % (kind, w),
                            where(node), key="C03|PU|%s|%s" % (b["path"], text))
    R.floor("PU panic sites examined", n_sinks, 18)
    R.analysed["panic_sites"] = n_sinks
    R.analysed["panic_sites_tainted"] = n_tainted
    R.analysed["build_reachable_bodies"] = len(reach_build)

    # ---------------- C03-g -------------------------------------------------
    n_res = 0
    for b in (tl, F.body("graph::Builder::load_jsr_subpath"), F.body("graph::Builder::handle_jsr_registry_pending_content_loads"), F.body("jsr::JsrMetadataStore::load_data"), F.body("graph::Builder::probe_cached_jsr_version_manifests")):
        for m in [n for n in b["_nodes"] if n["k"] == "Match"]:
            st = F.ty(m["scrut"]) or ""
            if not ("source::LoadResponse" in st or "source::CacheResponse" in st or "source::LoadError" in st):
                continue
            if "matches" in (m.get("mac") or []):
                continue
            n_res += 1
            for arm in m["arms"]:
                vs, ca = pat_variants(arm["pat"])
                if not ca:
                    continue
                # a catch-all over loader outcomes must not produce success
                vals = []
                _tail_values(F, arm["body"], vals)
                produces_ok = any(ctor_of(v) == "std::result::Result::Ok" for v in vals) or any(ctor_of(x) in ("graph::ModuleSlot::Module",) for x in walk(arm["body"]))
                R.ob("C03-g", "catch-all arm over loader outcomes in %s maps to an error" % b["path"], not produces_ok,
                     "a catch-all arm `%s` turns unlisted loader outcomes into success" % pat_text(arm["pat"]), where(arm["body"]))
    R.floor("C03-g matches over loader outcomes", n_res, 6)


def _round6(F, R):
    # C03-c: a loader response is parsed under the specifier the loader answered
    # with; the redirect decision (and with it the settling of the request's
    # Pending slot) is taken from that specifier
    n_sites = 0
    for b in F.bodies:
        if not b["path"].startswith("graph::Builder::"):
            continue
        for n in b["_nodes"]:
            if n.get("k") == "Struct" and (n.get("adt") or "").endswith("ParseModuleAndSourceInfoOptions"):
                g = guards_at(F, n, stop_at_async=False)
                resp = [x for x in g if x.kind == "pat" and x.pol and "LoadResponse::Module" in pat_text(x.pat)]
                if not resp:
                    continue
                n_sites += 1
                binds = {p_["lid"] for x in resp for p_ in pat_bindings(x.pat)}
                f = {x["name"]: x["e"] for x in n["fields"]}
                ok = "specifier" in f and any(peel_value(y).get("lid") in binds for y in through_locals(f["specifier"]))
                R.ob("C03-c", "a loader response is parsed under the specifier the loader answered with [%s]" % b["path"].split("::")[-1], ok,
                     "a LoadResponse::Module is parsed with `specifier: %s` instead of the response's own specifier: when the loader answered with another url, no redirect is recorded and the request's Pending slot is never settled ([INTERNAL ERROR] in the serialised graph)" % expr_text(f.get("specifier", {}))[:40],
                     where(n), key="C03|C03-c|response-specifier|%s" % b["path"].split("::")[-1])
    R.floor("C03-c loader responses parsed in the builder", n_sites, 3)
