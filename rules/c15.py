"""C15 — a walk visits exactly the selected reachable set, each entry once.

Decides:
  a. enqueue-once: every push onto the walker's work list is dominated by a
     successful `seen.insert` of the same specifier (roots: insert precedes push).
  b. edge gating: type resolutions are only followed under
     `kind.include_types()`, dynamic dependencies only under `follow_dynamic`,
     the types dependency of a JS module only when types are included, fast
     check dependencies only when requested and checkable; the code resolution
     is always followed.
  c. the walker's `previous_module` handling: dependencies of the previous
     entry are analysed only from `previous_module.take()`; redirect entries
     enqueue their target; `skip_previous_dependencies` clears it.
  d. Pending slots are never yielded; every yielded specifier comes from
     `visiting.pop_front()`.
  e. the error listing draws its entries only from the same iterator.
"""
from .lib import *
from .lib import _tail_values

EXPLANATION = (
    "Guard dominance over every work-list push of ModuleEntryIterator (T5/T7), gating conditions of each followed edge kind "
    "(T5), arm table of the walker's state machine (T8) and who-supplies-entries for the error iterator (T3)."
)
EXPLANATION += " " + 'Plus: unguarded seeding happens before anything else is marked seen, operator of the types-only kind test.'
NOT_DECIDED = "set equality of the visited set with reachability for all graphs"
CONFIGS = ["default", "nofastcheck"]  # thorough tier also analyses the build without fast_check / symbols
ASSUMPTIONS = ["caller-supplied roots are distinct (documented: roots are a set)"]

IT = "graph::ModuleEntryIterator"


def walker_enqueue(F, R, bodies, tag="C15-a", pid="C15"):
    """enqueue-once / seen-implies-queued discipline of ModuleEntryIterator"""
    # ---------------- C15-a ------------------------------------------------
    pushes = []
    for b in bodies:
        for n in b["_nodes"]:
            if n.get("k") == "MethodCall" and n["name"] in ("push_front", "push_back", "push") and (field_of(n["recv"]) == "visiting" or (peel(n["recv"]).get("res") == "local" and tyc(F, n["recv"], "VecDeque<&"))):
                pushes.append(n)
    R.floor(tag + " work-list pushes", len(pushes), 5)
    for p in pushes:
        key = peel_value(p["args"][0])
        g = guards_at(F, p)
        dom = any(x.kind == "cond" and x.pol and x.node.get("k") == "MethodCall" and x.node["name"] == "insert" and (peel(x.node["recv"]).get("field") == "seen" or tyc(F, x.node["recv"], "HashSet<&")) and peel_value(x.node["args"][0]).get("lid") == key.get("lid") for x in g)
        if dom:
            R.ob(tag, "push of `%s` in %s is dominated by a successful seen.insert" % (expr_text(p["args"][0]), p["_top"]["path"].split("::")[-1]), True)
            continue
        # roots seeding: an (unconditional) insert of the same local precedes the push in the same block
        blk = p
        while blk.get("_p") is not None and blk.get("k") != "Block":
            blk = blk["_p"]
        ins = [n for n in walk(blk) if n.get("k") == "MethodCall" and n["name"] == "insert" and (field_of(n["recv"]) == "seen" or tyc(F, n["recv"], "HashSet<&")) and peel_value(n["args"][0]).get("lid") == key.get("lid") and may_reach(F, n, p)]
        is_root_loop = any(a.get("k") == "For" and peel(a["iter"]).get("lid") == p["_top"]["body"]["params"][1].get("lid") for a in k_ancestors(p)) if len(p["_top"]["body"]["params"]) > 1 else False
        R.ob(tag, "root seeding: insert precedes push (roots are a set by contract)", bool(ins) and is_root_loop,
             "`visiting.%s(%s)` is not dominated by a successful `seen.insert(%s)`: a specifier reachable along two edges is yielded twice" % (p["name"], expr_text(p["args"][0]), expr_text(p["args"][0])),
             where(p), key=pid + "|" + tag + "|%s|%s" % (p["_top"]["path"], expr_text(p["args"][0])))

    # converse: a successful seen.insert is always followed by the push (a
    # specifier must not be marked seen without being queued)
    inserts = []
    for b in bodies:
        for n in b["_nodes"]:
            if n.get("k") == "MethodCall" and n["name"] == "insert" and (field_of(n["recv"]) == "seen" or (peel(n["recv"]).get("res") == "local" and tyc(F, n["recv"], "HashSet<&"))):
                inserts.append(n)
    R.floor(tag + " seen.insert sites", len(inserts), 5)
    for ins in inserts:
        key = peel_value(ins["args"][0])
        iff = None
        for a in k_ancestors(ins):
            if a["k"] == "If" and is_within(ins, a["cond"]):
                iff = a
                break
        def is_push(n, key=key):
            return n.get("k") == "MethodCall" and n["name"] in ("push_front", "push_back") and (field_of(n["recv"]) == "visiting" or tyc(F, n["recv"], "VecDeque<&")) and peel_value(n["args"][0]).get("lid") == key.get("lid")
        if iff is None:
            # unconditional insert (root seeding): the push must follow in the same block
            blk = ins
            while blk.get("_p") is not None and blk.get("k") != "Block":
                blk = blk["_p"]
            ok = any(is_push(n) and may_reach(F, ins, n) for n in walk(blk)) and ins["_p"].get("k") == "Semi"
            R.ob(tag, "unconditional seen.insert(%s) is followed by its push" % expr_text(ins["args"][0]), ok,
                 "`seen.insert(%s)` result is not used to gate a push and no push follows: the specifier is marked seen but never visited" % expr_text(ins["args"][0]), where(ins),
                 key=pid + "|" + tag + "|insert-without-push|%s" % ins["_top"]["path"])
            # its result is ignored, so it only avoids duplicates if nothing
            # else has been marked seen before it (the set starts empty and the
            # roots are a set by contract)
            earlier = [o for o in inserts if o is not ins and o["_top"] is ins["_top"] and may_reach(F, o, ins)]
            R.ob(tag, "the unguarded seeding of `%s` happens before anything else is marked seen" % expr_text(ins["args"][0]), not earlier,
                 "`seen.insert(%s)` ignores its result but other specifiers are already marked seen when it runs (%s): a specifier seeded twice (e.g. a root that is also an import target) is queued and yielded twice" % (
                     expr_text(ins["args"][0]), ", ".join(where(o).split(" in ")[0] for o in earlier[:2])),
                 where(ins), key=pid + "|" + tag + "|unguarded-seed-after-insert|%s" % ins["_top"]["path"])
            continue
        # the insert must be the last-evaluated conjunct of the condition
        c = iff["cond"]
        last = c
        while peel(last).get("k") == "Binary" and peel(last)["op"] == "&&":
            last = peel(last)["r"]
        last_ok = is_within(ins, last) and peel(last) is ins
        bad, _ = must_pass(F, iff["then"], is_push, exit_kinds=("fallthrough", "return", "break", "continue"))
        R.ob(tag, "successful seen.insert(%s) in %s always queues the specifier" % (expr_text(ins["args"][0]), ins["_top"]["path"].split("::")[-1]), last_ok and not bad,
             "a specifier can be marked seen (`seen.insert` succeeded) without being pushed onto the work list (%s): when it is reached again over a followed edge it is skipped together with everything below it" % (
                 "further conditions are tested after the insert" if not last_ok else "a path through the then-branch has no push"),
             where(ins), key=pid + "|" + tag + "|insert-without-push|%s" % ins["_top"]["path"])



def walker_selection(F, R, bodies, tag="C15-b"):
    """which edges / modules the walk selects per graph kind and option"""
    # ---------------- C15-b ------------------------------------------------
    n_type_push = 0
    n_code_push = 0

    def is_incl(y):
        return any((z.get("fn") or "").endswith("GraphKind::include_types") for w in through_locals(y) for z in [peel_value(w)] if z.get("k") in ("MethodCall", "Call"))

    def gated(n, body):
        g = expand_local_guards(F, guards_at(F, n), body)
        if any(x.kind == "cond" and x.pol and (x.node.get("fn") or "").endswith("GraphKind::include_types") for x in g):
            return True
        if any(x.kind == "cond" and x.pol and is_incl(x.node) for x in g):
            return True
        # `include_types.then_some(&dep.maybe_type)` / `.then(|| ..)`
        for a in k_ancestors(n):
            if a.get("k") == "MethodCall" and a["name"] in ("then_some", "then") and is_incl(a["recv"]):
                return True
        return False

    for b in bodies:
        for n in b["_nodes"]:
            if n.get("k") == "Field" and n.get("adt") == "graph::Dependency" and n["field"] in ("maybe_type", "maybe_code"):
                if n["field"] == "maybe_type":
                    n_type_push += 1
                    R.ob(tag, "type resolution followed only when types are included [%s]" % b["path"].split("::")[-1], gated(n, b),
                         "`maybe_type` is followed without `kind.include_types()`: code-only walks would visit type-only modules", where(n))
                else:
                    n_code_push += 1
                    g = expand_local_guards(F, guards_at(F, n), b)
                    conds = [x for x in g if x.kind == "cond" and (mentions_call(x.node, ["GraphKind::include_types"]) or is_incl(x.node))]
                    thens = [a for a in k_ancestors(n) if a.get("k") == "MethodCall" and a["name"] in ("then_some", "then")]
                    R.ob(tag, "code resolution is always followed [%s]" % b["path"].split("::")[-1], not conds and not thens,
                         "`maybe_code` is only followed under a graph-kind condition", where(n))
    R.floor(tag + " type-resolution pushes", n_type_push, 2)
    R.floor(tag + " code-resolution pushes", n_code_push, 2)
    amd = F.body(IT + "::analyze_module_deps")
    for n in amd["_nodes"]:
        if n.get("k") == "Field" and n.get("adt") == "graph::Dependency" and n["field"] in ("maybe_type", "maybe_code"):
            g = guards_at(F, n)
            tab = guard_table(g, [("is_dynamic", lambda y: peel_value(y).get("k") == "Field" and peel_value(y)["field"] == "is_dynamic"),
                                  ("follow_dynamic", lambda y: field_of(y) == "follow_dynamic")])
            ok = all(reach == ((not d) or f) for (d, f), reach in tab.items())
            R.ob(tag, "dependencies are followed only if static or follow_dynamic", ok,
                 "dependency resolutions are followed without `!dep.is_dynamic || self.follow_dynamic`", where(n))
    nx = F.body("<graph::ModuleEntryIterator as std::iter::Iterator>::next")
    # types dependency of a JS module
    tdeps = [n for n in nx["_nodes"] if n.get("k") == "Field" and n["field"] == "maybe_types_dependency"]
    R.floor(tag + " reads of maybe_types_dependency in next", len(tdeps), 1)
    for n in tdeps:
        g = guards_at(F, n)
        ok = any(x.kind == "cond" and x.pol and (x.node.get("fn") or "").endswith("GraphKind::include_types") for x in g)
        R.ob(tag, "types dependency followed only when types are included", ok, "maybe_types_dependency is followed in code-only walks", where(n))
    # TypesOnly substitution: `continue` only under kind == TypesOnly
    conts = [n for n in nx["_nodes"] if n["k"] == "Continue"]
    for c in conts:
        g = guards_at(F, c)
        ok = any(x.kind == "cond" and x.pol and x.node.get("k") == "Binary" and x.node["op"] == "==" and any(ctor_of(peel(x.node[s_])) == "graph::GraphKind::TypesOnly" for s_ in ("l", "r")) and any(field_of(x.node[s_]) == "kind" for s_ in ("l", "r")) for x in g)
        R.ob(tag, "a module is skipped only in types-only walks", ok, "`continue` (skip yielding a module) is not guarded by kind == TypesOnly", where(c))
        sub = any(x.kind == "pat" and x.pol and "graph::Resolution::Ok" in pat_text(x.pat) for x in g) or any(x.kind == "pat" and x.pol and any(y.get("k") == "MethodCall" and y["name"] in ("ok", "maybe_specifier") for y in walk(x.scrut)) for x in g)
        unchk = any(x.kind == "cond" and not x.pol and (x.node.get("fn") or "").endswith("is_checkable") for x in g)
        R.ob(tag, "a code module is replaced by its types dependency only when that dependency resolved (else only unchecked JS is skipped)", sub or unchk,
             "a module is skipped in a types-only walk although its types dependency did not resolve: the failed types resolution and everything behind the module disappear from the walk", where(c))
        # whether a module is skipped must not depend on whether its types
        # dependency happened to be seen already
        dep_seen = [x for x in g if x.kind == "cond" and any(y.get("k") == "MethodCall" and y["name"] in ("insert", "contains") and (field_of(y["recv"]) == "seen" or tyc(F, y["recv"], "HashSet<&")) for y in walk(x.node))]
        R.ob(tag, "the types-only skip does not depend on the seen-set", not dep_seen,
             "the `continue` that replaces a code module by its types dependency is only taken when `seen.insert(..)` succeeded: in a diamond (the .d.ts already reached) the JS module is yielded although the walk is types-only", where(c))
    # is_checkable: every JavaScript flavour defers to the check_js option, typed / json / wasm modules are checkable
    ic = F.body(IT + "::is_checkable")
    mms = [n for n in walk(ic["body"]) if n["k"] == "Match" and "MediaType" in (F.ty(n["scrut"]) or "")]
    if R.ob(tag, "is_checkable decides by media type", len(mms) == 1, "shape changed", ic["file"]):
        def arm_for(variant):
            for arm in mms[0]["arms"]:
                v, c = pat_variants(arm["pat"])
                if variant in v or (c and not v):
                    return arm
            return None
        for mt in ("JavaScript", "Jsx", "Mjs", "Cjs"):
            arm = arm_for("deno_media_type::MediaType::" + mt)
            ok = arm is not None and any((y.get("fn") or "").endswith("CheckJsOption::resolve") for y in walk(arm["body"]))
            R.ob(tag, "media type %s is checkable exactly when check_js says so" % mt, ok,
                 "is_checkable does not defer to `check_js.resolve(..)` for MediaType::%s: with check_js on, a types-only walk / segment skips such a module (and everything only it imports)" % mt, where(arm["body"]) if arm else ic["file"])
        for mt in ("TypeScript", "Mts", "Cts", "Dts", "Dmts", "Dcts", "Tsx", "Json", "Wasm"):
            arm = arm_for("deno_media_type::MediaType::" + mt)
            ok = arm is not None and peel(arm["body"]).get("v") is not False and not any((y.get("fn") or "").endswith("CheckJsOption::resolve") for y in walk(arm["body"]))
            R.ob(tag, "media type %s is always checkable" % mt, ok, "is_checkable answers `%s` for MediaType::%s" % (expr_text(arm["body"])[:30] if arm else "?", mt), where(arm["body"]) if arm else ic["file"])
    # fast check deps
    fc = [n for n in nx["_nodes"] if callee_matches(n, ["Module::dependencies_prefer_fast_check"])]
    R.floor(tag + " fast-check dependency selection", len(fc), 1)
    for n in fc:
        g = expand_local_guards(F, guards_at(F, n), nx)
        ok = any(x.kind == "cond" and x.pol and peel(x.node).get("field") == "prefer_fast_check_graph" for x in g) \
            and any(x.kind == "cond" and x.pol and (x.node.get("fn") or "").endswith("GraphKind::include_types") for x in g) \
            and any(x.kind == "cond" and x.pol and (x.node.get("fn") or "").endswith("is_checkable") for x in g)
        R.ob(tag, "fast-check dependencies only when requested, types are included and the module is type-checkable", ok,
             "dependencies_prefer_fast_check is selected without `kind.include_types() && is_checkable(..) && prefer_fast_check_graph`: a code-only walk would follow the pruned fast-check dependency set and miss implementation-only imports", where(n))



def run(F, R, tier):
    bodies = [b for b in F.bodies if (b.get("self_adt") == IT) and not b.get("derived")]
    R.floor("C15 ModuleEntryIterator bodies", len(bodies), 5)
    walker_enqueue(F, R, bodies)

    walker_selection(F, R, bodies)
    nx = F.body("<graph::ModuleEntryIterator as std::iter::Iterator>::next")

    # ---------------- C15-c ------------------------------------------------
    ms = [n for n in nx["_nodes"] if n["k"] == "Match" and mentions_field(n["scrut"], "previous_module")]
    if R.ob("C15-c", "walker state machine found", len(ms) == 1 and any(y.get("k") == "MethodCall" and y["name"] == "take" for y in walk(ms[0]["scrut"])), "next() no longer matches on self.previous_module.take()", nx["file"]):
        for arm in ms[0]["arms"]:
            pt = pat_text(arm["pat"])
            calls = [n for n in walk(arm["body"]) if callee_matches(n, [IT + "::analyze_module_deps"])]
            if "ModuleEntryRef::Module" in pt:
                R.ob("C15-c", "previous module: its dependencies are analysed", len(calls) == 1, "Module arm does not call analyze_module_deps exactly once", where(arm["body"]))
            elif "ModuleEntryRef::Redirect" in pt:
                ps = [n for n in walk(arm["body"]) if n.get("k") == "MethodCall" and n["name"].startswith("push")]
                binds = {b_["lid"] for b_ in pat_bindings(arm["pat"])}
                direct = len(ps) == 1 and any(peel_value(y).get("lid") in binds for y in through_locals(ps[0]["args"][0]))
                R.ob("C15-c", "previous redirect: its own target (the next hop) is enqueued", len(ps) == 1 and not calls and direct,
                     "Redirect arm does not enqueue the redirect's own target (`%s`): intermediate hops of a redirect chain would not be yielded" % (expr_text(ps[0]["args"][0]) if ps else "nothing"), where(arm["body"]))
            else:
                eff = [n for n in walk(arm["body"]) if n.get("k") == "MethodCall"]
                R.ob("C15-c", "previous error / none: nothing is enqueued", not eff, "Err/None arm has effects", where(arm["body"]))
    sk = F.body(IT + "::skip_previous_dependencies")
    asg = [n for n in sk["_nodes"] if n["k"] == "Assign" and field_of(n["l"]) == "previous_module" and ctor_of(peel(n["r"])) == "std::option::Option::None"]
    R.ob("C15-c", "skip_previous_dependencies clears the previous module", len(asg) == 1, "skip_previous_dependencies no longer sets previous_module = None", sk["file"])

    # ---------------- C15-d ------------------------------------------------
    lm = [n for n in nx["_nodes"] if n["k"] == "Match" and any("graph::ModuleSlot::Pending" in pat_text(a["pat"]) for a in n["arms"])]
    if R.ob("C15-d", "slot match found in next", len(lm) == 1, "shape changed", nx["file"]):
        for arm in lm[0]["arms"]:
            pt = pat_text(arm["pat"])
            brk = [n for n in walk(arm["body"], into_closures=False) if n["k"] == "Break"]
            if "Pending" in pt:
                R.ob("C15-d", "pending slots are never yielded", not brk, "the Pending arm yields an entry", where(arm["body"]))
            elif "ModuleSlot::Err" in pt:
                R.ob("C15-d", "error slots are yielded as Err entries", len(brk) == 1 and any(ctor_of(x) == "graph::ModuleEntryRef::Err" for x in walk(brk[0])), "Err arm shape changed", where(arm["body"]))
            elif "ModuleSlot::Module" in pt:
                R.ob("C15-d", "module slots are yielded as Module entries", any(any(ctor_of(x) == "graph::ModuleEntryRef::Module" for x in walk(b_)) for b_ in brk), "Module arm shape changed", where(arm["body"]))
        covered = set()
        ca = False
        for arm in lm[0]["arms"]:
            v, c = pat_variants(arm["pat"])
            covered |= v
            ca = ca or c
        allv = {v["path"] for v in F.adt("graph::ModuleSlot")["variants"]}
        R.ob("C15-d", "every slot kind is handled explicitly", covered >= allv and not ca, "catch-all or missing slot kind %s" % sorted(allv - covered), where(lm[0]))
    pops = [n for n in nx["_nodes"] if n.get("k") == "MethodCall" and n["name"] == "pop_front" and field_of(n["recv"]) == "visiting"]
    R.ob("C15-d", "entries are taken from the work list", len(pops) == 1, "next() does not pop exactly one work-list entry per iteration", nx["file"])

    # ---------------- C15-e ------------------------------------------------
    en = F.body("<graph::ModuleGraphErrorIterator as std::iter::Iterator>::next")
    src = [n for n in en["_nodes"] if n.get("k") == "MethodCall" and n["name"] == "next" and field_of(n["recv"]) == "iterator"]
    R.ob("C15-e", "error listing pulls entries from the walk iterator", len(src) == 1, "ModuleGraphErrorIterator::next does not call self.iterator.next() exactly once per round", en["file"])
    direct = [n for n in en["_nodes"] if n.get("k") == "MethodCall" and n["name"] in ("values", "iter", "keys", "get", "get_key_value") and field_of(n["recv"]) in ("module_slots",)]
    R.ob("C15-e", "error listing never reads module_slots directly", not direct, "ModuleGraphErrorIterator::next reads module_slots itself: its errors would not be those of the visited entries", en["file"])
