"""Rule-engine library: fact loading, tree navigation, and the rule templates
(T1..T14, PU) described in DESIGN.md.  Pure Python 3 stdlib.

Everything here works on the fact file written by the dgfacts driver from
/repo's *current* source; nothing executes deno_graph code.
"""
import json
import os
import re
import sys
import time

# ----------------------------------------------------------------------------
# facts
# ----------------------------------------------------------------------------

CHILD_SKIP = {"_p", "_b", "_role", "_top", "_ref"}


class Facts:
    def __init__(self, path):
        with open(path) as f:
            d = json.load(f)
        self.raw = d
        self.types = d["types"]
        self.counts = d["counts"]
        self.crate = d["crate"]
        self.bodies = d["bodies"]
        self.adts = {a["path"]: a for a in d["adts"]}
        self.ast_adts = {a["path"]: a for a in d["ast_adts"]}
        self.traits = {t["path"]: t for t in d["traits"]}
        self.extern_adts = d.get("extern_adts") or []
        self.by_path = {}
        for b in self.bodies:
            self.by_path.setdefault(b["path"], []).append(b)
        self.nodes = {}  # id -> node
        for b in self.bodies:
            self._index(b)
        self._callgraph = None
        self.inlined = []
        if not os.environ.get("VERIF_NO_INLINE"):
            self._inline_new_helpers()

    # -- indexing ------------------------------------------------------------
    def _index(self, b):
        root = b["body"]
        stack = [(root, None, "body")]
        b["_nodes"] = []
        while stack:
            n, parent, role = stack.pop()
            n["_p"] = parent
            n["_role"] = role
            n["_top"] = b
            if "k" in n:
                self.nodes[n["id"]] = n
                b["_nodes"].append(n)
            for key, v in list(n.items()):
                if key in CHILD_SKIP:
                    continue
                if isinstance(v, dict):
                    stack.append((v, n, key))
                elif isinstance(v, list):
                    for i, x in enumerate(v):
                        if isinstance(x, dict):
                            stack.append((x, n, (key, i)))
        b["_nodes"].sort(key=lambda n: n["id"])

    # -- inline view ---------------------------------------------------------
    def _inline_new_helpers(self):
        """Extract-function normalisation.  A local function that did not exist
        when the rules were armed (rules/known_fns.json lists the def-paths of
        that tree) is a helper somebody extracted later; rules that reason about
        the paths through a named function must see through it.  Every call of
        such a function gets an `inl` child: a labelled block that binds the
        callee's parameters to the argument expressions (`ArgRef`, looked
        through by peel) and contains a copy of the callee's body with fresh
        ids / local ids and `return` turned into a break out of that block.
        walk(), guards_at(), Flow, local_defs() and the slicer then treat the
        helper's code as part of the caller.  Nothing changes for functions
        that already existed."""
        kp = os.path.join(os.path.dirname(os.path.abspath(__file__)), "known_fns.json")
        if not os.path.exists(kp):
            return
        kf = json.load(open(kp))
        known = set(kf["paths"] if isinstance(kf, dict) else kf)
        sigs = kf.get("signatures", {}) if isinstance(kf, dict) else {}
        # rename normalisation: a function the rules know by name is gone and exactly
        # one new function with the same parent (module / impl) and the same
        # signature appeared -> it is the same function under a new name
        self.renamed = []
        for old in sorted(known - set(self.by_path)):
            if old not in sigs or old.split("::")[-1].startswith("{"):
                continue
            parent = old.rsplit("::", 1)[0]
            cands = [bs[0] for p_, bs in self.by_path.items() if p_ not in known and len(bs) == 1 and p_.rsplit("::", 1)[0] == parent and bs[0].get("kind") in ("Fn", "AssocFn")
                     and "inputs" in bs[0] and [[self.types[i] for i in bs[0]["inputs"]], (self.types[bs[0]["output"]] if bs[0].get("output") is not None else None)] == sigs[old]]
            if len(cands) == 1:
                b_ = cands[0]
                newp = b_["path"]
                del self.by_path[newp]
                b_["orig_path"] = newp
                b_["path"] = old
                self.by_path[old] = [b_]
                self.renamed.append((old, newp))

                def fix(v):
                    if isinstance(v, str):
                        if v == newp:
                            return old
                        if v.startswith(newp + "::"):
                            return old + v[len(newp):]
                    return v
                # items nested in the renamed function (closures, inner fns) follow it
                for bb in self.bodies:
                    if bb["path"].startswith(newp + "::"):
                        np_ = fix(bb["path"])
                        if np_ not in self.by_path:
                            self.by_path.pop(bb["path"], None)
                            bb["orig_path"] = bb["path"]
                            bb["path"] = np_
                            self.by_path[np_] = [bb]
                for bb in self.bodies:
                    for n in bb["_nodes"]:
                        for key in ("fn", "impl", "path", "def"):
                            if key in n:
                                n[key] = fix(n[key])
        new = {p: bs[0] for p, bs in self.by_path.items() if p not in known and len(bs) == 1 and not p.split("::")[-1].startswith("{")
               and bs[0].get("kind") in ("Fn", "AssocFn") and not bs[0].get("impl_trait")}
        if not new:
            return
        self._inl_seq = 0

        def expand(b, depth, stack):
            for n in list(b["_nodes"]) if depth == 0 else []:
                self._try_inline(n, b, new, depth, stack)
        for b in list(self.bodies):
            for n in list(b["_nodes"]):
                self._try_inline(n, b, new, 0, (b["path"],))

    def _try_inline(self, n, top, new, depth, stack):
        if n.get("k") not in ("Call", "MethodCall") or "inl" in n or depth > 3:
            return
        tgt = n.get("impl") if n.get("impl") in new else (n.get("fn") if n.get("fn") in new else None)
        if tgt is None or tgt in stack:
            return
        H = new[tgt]
        hb = H["body"]
        value = hb["value"]
        if H.get("async") and value.get("k") == "Closure":
            value = value["body"]["value"]
        args = ([n["recv"]] if n.get("k") == "MethodCall" else []) + list(n["args"])
        if len(args) != len(hb["params"]):
            return
        self._inl_seq += 1
        tag = "@%d" % self._inl_seq
        base = n["id"]
        counter = [0]

        def clone(x):
            if isinstance(x, list):
                return [clone(y) for y in x]
            if not isinstance(x, dict):
                return x
            o = {}
            for k, v in x.items():
                if k in CHILD_SKIP or k == "_nodes" or k == "inl":
                    continue
                if k in ("lid", "h", "target") and v is not None:
                    o[k] = "%s%s" % (v, tag)
                elif k == "id":
                    counter[0] += 1
                    o[k] = base + counter[0] / 100000.0
                else:
                    o[k] = clone(v)
            if o.get("k") == "Ret":
                o["k"] = "Break"
                o["target"] = "inl" + tag
                o["was_ret"] = True
            return o
        stmts = []
        for p, a in zip(hb["params"], args):
            counter[0] += 2
            stmts.append({"k": "LetStmt", "id": base + (counter[0] - 1) / 100000.0, "h": "p%s" % tag, "ln": n.get("ln"), "pat": clone(p),
                          "init": {"k": "ArgRef", "id": base + counter[0] / 100000.0, "h": "a%s" % tag, "ln": n.get("ln"), "t": a.get("t"), "ta": a.get("ta"), "_ref": a}})
        blk = {"k": "Block", "id": base + 0.000001, "h": "inl" + tag, "ln": n.get("ln"), "t": n.get("t"), "inl_of": tgt, "stmts": stmts, "expr": clone(value)}
        n["inl"] = blk
        # index the new subtree under the caller
        st = [(blk, n, "inl")]
        added = []
        while st:
            x, parent, role = st.pop()
            x["_p"] = parent
            x["_role"] = role
            x["_top"] = top
            if "k" in x:
                self.nodes[x["id"]] = x
                added.append(x)
            for key, v in list(x.items()):
                if key in CHILD_SKIP or key == "_ref":
                    continue
                if isinstance(v, dict):
                    st.append((v, x, key))
                elif isinstance(v, list):
                    for i, y in enumerate(v):
                        if isinstance(y, dict):
                            st.append((y, x, (key, i)))
        top["_nodes"].extend(added)
        top["_nodes"].sort(key=lambda m: m["id"])
        self.inlined.append((top["path"], tgt, n.get("ln")))
        for m in added:
            self._try_inline(m, top, new, depth + 1, stack + (tgt,))

    # -- lookups -------------------------------------------------------------
    def ty(self, n, adjusted=False):
        if adjusted and "ta" in n:
            return self.types[n["ta"]]
        t = n.get("t")
        return self.types[t] if t is not None else None

    def tystr(self, idx):
        return self.types[idx] if idx is not None else None

    def body(self, suffix, required=True):
        """Unique body whose def-path equals `suffix` or ends with `::suffix`."""
        hits = [b for b in self.bodies if b["path"] == suffix or b["path"].endswith("::" + suffix)]
        if len(hits) == 1:
            return hits[0]
        if not hits:
            if required:
                raise AnchorLost("body `%s` not found" % suffix)
            return None
        # prefer exact
        exact = [b for b in hits if b["path"] == suffix]
        if len(exact) == 1:
            return exact[0]
        raise AnchorLost("body `%s` ambiguous: %s" % (suffix, [b["path"] for b in hits]))

    def bodies_matching(self, pred):
        return [b for b in self.bodies if pred(b)]

    def adt(self, path):
        a = self.adts.get(path)
        if a is None:
            raise AnchorLost("ADT `%s` not found" % path)
        return a

    def ast_adt(self, path):
        a = self.ast_adts.get(path)
        if a is None:
            raise AnchorLost("AST ADT `%s` not found" % path)
        return a

    def all_nodes(self):
        for b in self.bodies:
            for n in b["_nodes"]:
                yield n

    # -- call graph ----------------------------------------------------------
    def callgraph(self):
        """path -> set(paths) over local bodies; closures are part of their
        enclosing body; trait-method calls resolve to every local impl of the
        trait method (dynamic dispatch over-approximation) unless the driver
        resolved the instance."""
        if self._callgraph is not None:
            return self._callgraph
        local = set(self.by_path)
        trait_impls = {}
        for b in self.bodies:
            tm = b.get("trait_method")
            if tm:
                trait_impls.setdefault(tm, set()).add(b["path"])
        g = {}
        for b in self.bodies:
            out = set()
            for n in b["_nodes"]:
                if n["k"] in ("Call", "MethodCall", "Binary"):
                    imp = n.get("impl")
                    fn = n.get("fn")
                    if imp and imp in local:
                        out.add(imp)
                    elif fn:
                        if fn in local:
                            out.add(fn)
                        if not imp and fn in trait_impls:
                            out |= trait_impls[fn]
                elif n["k"] == "Path" and n.get("res") == "fn" and n.get("path") in local:
                    out.add(n["path"])  # function value
            g[b["path"]] = out
        self._callgraph = g
        return g

    def reachable_from(self, roots):
        g = self.callgraph()
        seen = set()
        stack = list(roots)
        while stack:
            x = stack.pop()
            if x in seen:
                continue
            seen.add(x)
            stack.extend(g.get(x, ()))
        return seen


class AnchorLost(Exception):
    pass


# ----------------------------------------------------------------------------
# tree navigation
# ----------------------------------------------------------------------------


def children(n):
    """Direct child nodes (dicts), in source/evaluation order where it matters."""
    out = []
    for key, v in n.items():
        if key in CHILD_SKIP:
            continue
        if isinstance(v, dict):
            out.append(v)
        elif isinstance(v, list):
            for x in v:
                if isinstance(x, dict):
                    out.append(x)
    return out


def walk(n, into_closures=True):
    """All descendant nodes having a kind ('k'), including n."""
    stack = [n]
    while stack:
        x = stack.pop()
        if "k" in x:
            yield x
            if x["k"] == "Closure" and not into_closures and x is not n:
                continue
        for c in reversed(children(x)):
            stack.append(c)


def walk_body(b, into_closures=True):
    return walk(b["body"], into_closures)


def ancestors(n):
    p = n.get("_p")
    while p is not None:
        yield p
        p = p.get("_p")


def k_ancestors(n):
    for a in ancestors(n):
        if "k" in a:
            yield a


def is_within(n, anc):
    if n is anc:
        return True
    for a in ancestors(n):
        if a is anc:
            return True
    return False


def top(n):
    return n["_top"]


def where(n):
    b = n["_top"]
    return "%s:%s in %s" % (b["file"], n.get("ln", "?"), b["path"])


def enclosing_closures(n):
    return [a for a in k_ancestors(n) if a["k"] == "Closure"]


def peel(n):
    """Strip wrappers that do not change the value: refs, derefs, casts to
    same, `.clone()`, parenthesised blocks with a single tail expr, Use."""
    while True:
        k = n.get("k")
        if k == "AddrOf":
            n = n["e"]
        elif k == "Unary" and n["op"] == "*":
            n = n["e"]
        elif k == "Block" and not n["stmts"] and "expr" in n:
            n = n["expr"]
        elif k == "Use":
            n = n["e"]
        elif k == "ArgRef":
            n = n["_ref"]
        else:
            return n


CLONE_LIKE = {
    "std::clone::Clone::clone",
    "std::borrow::ToOwned::to_owned",
    "std::convert::Into::into",
    "std::convert::From::from",
    "std::convert::AsRef::as_ref",
    "std::option::Option::as_ref",
    "std::option::Option::as_mut",
    "std::option::Option::as_deref",
    "std::option::Option::cloned",
    "std::option::Option::copied",
    "std::ops::Deref::deref",
    "std::borrow::Borrow::borrow",
}


def peel_value(n):
    """peel + clone-like method calls (value-preserving adaptors)."""
    while True:
        n = peel(n)
        if n.get("k") == "MethodCall" and n.get("fn") in CLONE_LIKE:
            n = n["recv"]
            continue
        if n.get("k") == "Call" and n.get("fn") in CLONE_LIKE and len(n["args"]) == 1:
            n = n["args"][0]
            continue
        return n


def callee(n):
    """Resolved callee def-path of a Call / MethodCall (declared item)."""
    if n.get("k") in ("Call", "MethodCall", "Binary"):
        return n.get("fn")
    return None


def callee_matches(n, names):
    """True if n is a call whose declared or resolved callee equals, or ends
    with `::`+, one of names."""
    if n.get("k") not in ("Call", "MethodCall"):
        return False
    for c in (n.get("fn"), n.get("impl")):
        if not c:
            continue
        for nm in names:
            if c == nm or c.endswith("::" + nm):
                return True
    return False


def calls_in(root, names, into_closures=True):
    return [n for n in walk(root, into_closures) if callee_matches(n, names)]


def call_args(n):
    """All argument expressions including the receiver (receiver first)."""
    if n["k"] == "MethodCall":
        return [n["recv"]] + n["args"]
    return n["args"]


def ctor_of(n):
    """Variant/struct path constructed by node n (tuple ctor call, struct
    literal or unit path), else None."""
    k = n.get("k")
    if k == "Call" and "ctor" in n:
        return n["ctor"]
    if k == "Struct":
        return n.get("variant")
    if k == "Path" and n.get("res") == "ctor":
        return n.get("path")
    return None


def constructions(root, variant, into_closures=True):
    return [n for n in walk(root, into_closures) if ctor_of(n) == variant]


def macro_of(n, names):
    m = n.get("mac")
    if not m:
        return None
    for x in m:
        if x in names:
            return x
    return None


def expr_text(n, depth=0):
    """Compact, position-free rendering of an expression (for evidence and
    for keys that must not contain line numbers)."""
    if depth > 6:
        return "…"
    k = n.get("k")
    d = depth + 1
    if k == "Path":
        if n.get("res") == "local":
            return n.get("name", "?")
        return (n.get("path") or "?").split("::")[-1] if n.get("res") in ("fn",) else (n.get("path") or "?")
    if k == "Lit":
        return repr(n.get("v"))
    if k == "Field":
        return expr_text(n["e"], d) + "." + n["field"]
    if k == "MethodCall":
        return "%s.%s(%s)" % (expr_text(n["recv"], d), n["name"], ", ".join(expr_text(a, d) for a in n["args"]))
    if k == "Call":
        if "ctor" in n:
            f = n["ctor"]
        elif "fn" in n:
            f = n["fn"]
        else:
            f = expr_text(n["f"], d)
        return "%s(%s)" % (f, ", ".join(expr_text(a, d) for a in n["args"]))
    if k == "AddrOf":
        return "&" + ("mut " if n.get("mut") else "") + expr_text(n["e"], d)
    if k == "Unary":
        return n["op"] + expr_text(n["e"], d)
    if k == "Binary":
        return "%s %s %s" % (expr_text(n["l"], d), n["op"], expr_text(n["r"], d))
    if k == "Struct":
        return "%s{%s}" % (n.get("variant"), ", ".join("%s: %s" % (f["name"], expr_text(f["e"], d)) for f in n["fields"]))
    if k == "Try":
        return expr_text(n["e"], d) + "?"
    if k == "Await":
        return expr_text(n["e"], d) + ".await"
    if k == "Closure":
        return "|..| {..}"
    if k == "Block":
        if not n["stmts"] and "expr" in n:
            return expr_text(n["expr"], d)
        return "{..}"
    if k == "Let":
        return "let %s = %s" % (pat_text(n["pat"]), expr_text(n["init"], d))
    if k == "Tup":
        return "(%s)" % ", ".join(expr_text(a, d) for a in n["args"])
    if k == "Cast":
        return "%s as _" % expr_text(n["e"], d)
    if k == "Index":
        return "%s[%s]" % (expr_text(n["e"], d), expr_text(n["idx"], d))
    if k == "If":
        return "if %s {..}" % expr_text(n["cond"], d)
    if k == "Match":
        return "match %s {..}" % expr_text(n["scrut"], d)
    if k == "Ret":
        return "return " + (expr_text(n["e"], d) if "e" in n else "")
    if k == "Assign":
        return "%s = %s" % (expr_text(n["l"], d), expr_text(n["r"], d))
    return "<%s>" % k


def pat_text(p):
    pk = p.get("pk")
    if pk == "bind":
        return p["name"]
    if pk == "wild":
        return "_"
    if pk in ("tuplestruct",):
        return "%s(%s)" % (p.get("path"), ", ".join(pat_text(x) for x in p["pats"]))
    if pk == "struct":
        return "%s{%s%s}" % (p.get("path"), ", ".join(f["name"] for f in p["fields"]), ", .." if p.get("rest") else "")
    if pk == "path":
        return p.get("path") or "?"
    if pk == "or":
        return " | ".join(pat_text(x) for x in p["pats"])
    if pk in ("tuple",):
        return "(%s)" % ", ".join(pat_text(x) for x in p["pats"])
    if pk in ("ref", "box", "deref"):
        return "&" + pat_text(p["pats"][0])
    if pk == "lit":
        return repr(p.get("v"))
    return "<%s>" % pk


# ----------------------------------------------------------------------------
# patterns: which enum variants a pattern covers
# ----------------------------------------------------------------------------


def pat_variants(p):
    """(set of variant paths matched at the top level, is_catch_all).
    Bindings and wildcards are catch-alls; ref/box/deref are transparent."""
    pk = p.get("pk")
    if pk in ("wild",):
        return set(), True
    if pk == "bind":
        if "sub" in p:
            return pat_variants(p["sub"])
        return set(), True
    if pk in ("ref", "box", "deref"):
        return pat_variants(p["pats"][0])
    if pk == "guard":
        vs, _ = pat_variants(p["pats"][0])
        return vs, False
    if pk == "or":
        vs = set()
        ca = False
        for x in p["pats"]:
            v, c = pat_variants(x)
            vs |= v
            ca = ca or c
        return vs, ca
    if pk in ("struct", "tuplestruct", "path"):
        if p.get("res") in ("ctor", "variant", "struct", "const"):
            return {p.get("path")}, False
        return set(), False
    return set(), False


def pat_bindings(p):
    """All binding sub-patterns (dicts with pk == 'bind')."""
    return [x for x in walk(p) if x.get("k") == "Pat" and x.get("pk") == "bind"]


def pat_is_irrefutable_shape(p):
    pk = p.get("pk")
    if pk in ("wild", "bind"):
        return "sub" not in p or pat_is_irrefutable_shape(p["sub"])
    if pk in ("tuple",):
        return all(pat_is_irrefutable_shape(x) for x in p["pats"])
    if pk in ("ref", "box", "deref"):
        return pat_is_irrefutable_shape(p["pats"][0])
    if pk == "struct" and p.get("res") == "struct":
        return all(pat_is_irrefutable_shape(f["pat"]) for f in p["fields"])
    return False


# ----------------------------------------------------------------------------
# divergence
# ----------------------------------------------------------------------------


def diverges(F, n):
    """Structural: control never falls out of the end of n."""
    k = n.get("k")
    if k in ("Ret", "Break", "Continue", "Become"):
        return True
    t = F.ty(n)
    if t == "!" and k not in ("Block", "If", "Match", "Loop", "While", "For"):
        return True
    if k == "Semi":
        return diverges(F, n["e"])
    if k == "LetStmt":
        return "init" in n and diverges(F, n["init"])
    if k == "Block":
        for s in n["stmts"]:
            if diverges(F, s):
                return True
        return "expr" in n and diverges(F, n["expr"])
    if k == "If":
        if diverges(F, n["cond"]):
            return True
        return "else" in n and diverges(F, n["then"]) and diverges(F, n["else"])
    if k == "Match":
        if diverges(F, n["scrut"]):
            return True
        return bool(n["arms"]) and all(diverges(F, a["body"]) for a in n["arms"])
    if k == "Loop":
        # `loop` without any break targeting it
        h = n.get("h")
        for x in walk(n["body"], into_closures=False):
            if x["k"] == "Break" and x.get("target") == h:
                return False
        return True
    if k in ("Call", "MethodCall"):
        for a in call_args(n):
            if diverges(F, a):
                return True
        return t == "!"
    return False


# ----------------------------------------------------------------------------
# guards: conditions known to hold at a node (structured dominance)
# ----------------------------------------------------------------------------


class Guard:
    """A fact `cond evaluates to polarity` (cond is an expression node), or
    `scrutinee matches pat` (kind == 'pat'), or `scrutinee does not match pat`."""

    __slots__ = ("kind", "node", "pol", "pat", "scrut", "orig", "orig_pol", "derived")

    def __init__(self, kind, node=None, pol=True, pat=None, scrut=None):
        self.kind = kind
        self.derived = False  # True: obtained by expanding a boolean local's definition
        self.orig = node
        self.orig_pol = pol
        # canonical form: a false `==` is a true `!=`, a false `is_some()` is
        # a true `is_none()` (and vice versa), so that rules do not depend on
        # which of the two spellings the code uses
        if kind == "cond" and node is not None and not pol:
            c = _canon_negation(node)
            if c is not None:
                node, pol = c, True
        self.node = node
        self.pol = pol
        self.pat = pat
        self.scrut = scrut

    def holds(self, n):
        """True/False when this guard fixes the truth value of expression node
        n (identity), else None."""
        if self.kind == "cond" and self.orig is n:
            return self.orig_pol
        return None

    def text(self):
        if self.kind == "cond":
            return ("" if self.pol else "!") + "(" + expr_text(self.node) + ")"
        return "%s %s %s" % (expr_text(self.scrut), "matches" if self.pol else "!matches", pat_text(self.pat))


_NEG_OP = {"==": "!=", "!=": "=="}
_NEG_FN = {
    "std::option::Option::is_some": ("std::option::Option::is_none", "is_none"),
    "std::option::Option::is_none": ("std::option::Option::is_some", "is_some"),
    "std::result::Result::is_ok": ("std::result::Result::is_err", "is_err"),
    "std::result::Result::is_err": ("std::result::Result::is_ok", "is_ok"),
}


def _canon_negation(c):
    k = c.get("k")
    if k == "Binary" and c["op"] in _NEG_OP:
        c2 = dict(c)
        c2["op"] = _NEG_OP[c["op"]]
        c2["_canon_of"] = c
        return c2
    if k == "MethodCall" and c.get("fn") in _NEG_FN:
        c2 = dict(c)
        c2["fn"], c2["name"] = _NEG_FN[c["fn"]]
        c2["_canon_of"] = c
        return c2
    return None


def split_cond(c, pol, out):
    """Decompose a condition known to have truth value `pol` into atoms."""
    c = peel(c)
    k = c.get("k")
    if k == "Binary" and c["op"] == "&&" and pol:
        split_cond(c["l"], True, out)
        split_cond(c["r"], True, out)
        return
    if k == "Binary" and c["op"] == "||" and not pol:
        split_cond(c["l"], False, out)
        split_cond(c["r"], False, out)
        return
    if k == "Unary" and c["op"] == "!":
        split_cond(c["e"], not pol, out)
        return
    if k == "Let":
        out.append(Guard("pat", pol=pol, pat=c["pat"], scrut=c["init"]))
        return
    if k == "Match" and "matches" in (c.get("mac") or []) and len(c["arms"]) == 2:
        # matches!(scrut, pat)
        out.append(Guard("pat", pol=pol, pat=c["arms"][0]["pat"], scrut=c["scrut"]))
        # keep the whole thing as a cond too
    out.append(Guard("cond", node=c, pol=pol))


def guards_at(F, n, stop_at_async=True, stop_at=None, expand=True):
    """guards that hold at n; guards that are single-definition boolean
    locals are expanded into the atoms of their definition (see
    expand_local_guards) unless expand=False"""
    out = _guards_at(F, n, stop_at_async, stop_at)
    if expand and out and n.get("_top") is not None:
        try:
            out = expand_local_guards(F, out, n["_top"])
        except KeyError:
            pass
    return out


def _guards_at(F, n, stop_at_async=True, stop_at=None):
    """Conditions that hold whenever control reaches node n, derived from the
    structured control flow of the enclosing body (enclosing if / match /
    while, and earlier diverging `if` / `let-else` statements in enclosing
    blocks, and the left operands of enclosing `&&` / `||`)."""
    out = []
    child = n
    p = n.get("_p")
    while p is not None:
        if p is stop_at:
            break
        k = p.get("k")
        role = child.get("_role")
        if k == "If":
            if role == "then":
                split_cond(p["cond"], True, out)
            elif role == "else":
                split_cond(p["cond"], False, out)
        elif k == "While":
            if role == "body":
                split_cond(p["cond"], True, out)
        elif k == "Binary" and p["op"] in ("&&", "||") and role == "r":
            split_cond(p["l"], p["op"] == "&&", out)
        elif k == "Match" and isinstance(role, tuple) and role[0] == "arms":
            pass  # handled when child is the arm dict (no 'k'); see below
        elif k is None and "pat" in p and "body" in p and p.get("_p", {}).get("k") == "Match":
            # p is an arm object; child is its body or guard
            m = p["_p"]
            idx = p["_role"][1]
            if role in ("body", "guard"):
                out.append(Guard("pat", pol=True, pat=p["pat"], scrut=m["scrut"]))
                if role == "body" and "guard" in p:
                    split_cond(p["guard"], True, out)
                for j in range(idx):
                    prev = m["arms"][j]
                    if "guard" not in prev:
                        out.append(Guard("pat", pol=False, pat=prev["pat"], scrut=m["scrut"]))
        elif k == "Block" and isinstance(role, tuple) and role[0] == "stmts" or (k == "Block" and role == "expr"):
            idx = role[1] if isinstance(role, tuple) else len(p["stmts"])
            for s in p["stmts"][:idx]:
                _stmt_guards(F, s, out)
        elif k == "Closure":
            ck = p.get("ck", "")
            if stop_at_async and ck.startswith("coroutine") and "Fn" not in ck:
                # async block: runs later; outer guards hold only at creation
                break
        child = p
        p = p.get("_p")
    return out


def _stmt_guards(F, s, out):
    """Facts established after statement s completes normally."""
    e = s
    if s.get("k") == "Semi":
        e = s["e"]
    k = e.get("k")
    if k == "If":
        then_div = diverges(F, e["then"])
        else_div = "else" in e and diverges(F, e["else"])
        if then_div and not else_div:
            split_cond(e["cond"], False, out)
        elif else_div and not then_div:
            split_cond(e["cond"], True, out)
    elif k == "LetStmt" and "else" in e and "init" in e:
        out.append(Guard("pat", pol=True, pat=e["pat"], scrut=e["init"]))
    elif k == "Match":
        live = [a for a in e["arms"] if not diverges(F, a["body"])]
        if len(live) == 1 and "guard" not in live[0]:
            out.append(Guard("pat", pol=True, pat=live[0]["pat"], scrut=e["scrut"]))
        for a in e["arms"]:
            if diverges(F, a["body"]) and "guard" not in a:
                out.append(Guard("pat", pol=False, pat=a["pat"], scrut=e["scrut"]))
    elif k == "LetStmt" and "init" in e:
        # `let x = match y { A => .., _ => return }` style
        i = peel(e["init"])
        if i.get("k") == "Match":
            live = [a for a in i["arms"] if not diverges(F, a["body"])]
            if len(live) == 1 and "guard" not in live[0]:
                out.append(Guard("pat", pol=True, pat=live[0]["pat"], scrut=i["scrut"]))
        elif i.get("k") == "If" and "else" in i:
            td = diverges(F, i["then"])
            ed = diverges(F, i["else"])
            if td and not ed:
                split_cond(i["cond"], False, out)
            elif ed and not td:
                split_cond(i["cond"], True, out)


def eval_cond(n, atom):
    """three-valued evaluation of a boolean expression tree: `atom(node)` gives
    True / False for the leaves it knows and None otherwise"""
    n = peel(n)
    k = n.get("k")
    if k == "Unary" and n.get("op") == "!":
        v = eval_cond(n["e"], atom)
        return None if v is None else (not v)
    if k == "Binary" and n.get("op") in ("&&", "||"):
        a = eval_cond(n["l"], atom)
        b = eval_cond(n["r"], atom)
        if n["op"] == "&&":
            if a is False or b is False:
                return False
            return True if (a is True and b is True) else None
        if a is True or b is True:
            return True
        return False if (a is False and b is False) else None
    return atom(n)


def guards_admit(guards, atom):
    """can all `cond` guards hold under the leaf valuation `atom`? (guards whose
    value is unknown under the valuation are ignored)"""
    for g in guards:
        if g.kind != "cond":
            continue
        v = eval_cond(g.node, atom)
        if v is not None and v != g.pol:
            return False
    return True


def guard_table(guards, atoms):
    """{valuation tuple -> reachable?} over the named leaf predicates
    atoms = [(name, pred(node) -> bool)]"""
    import itertools
    out = {}
    for vals in itertools.product((False, True), repeat=len(atoms)):
        def atom(n, vals=vals):
            for (nm, pred), v in zip(atoms, vals):
                if pred(n):
                    return v
            return None
        out[vals] = guards_admit(guards, atom)
    return out


def matched_regions(expr, variant_prefix="std::option::Option::Some("):
    """Where is the value of `expr` destructured with a pattern starting with
    `variant_prefix`, and which code runs when it matched?  Handles `match`,
    `if let`, `while let`, `let .. else`.  Returns [(binding lids, [region roots])]."""
    out = []
    for a in k_ancestors(expr):
        k = a.get("k")
        if k == "Match" and is_within(expr, a["scrut"]):
            for arm in a["arms"]:
                if pat_text(arm["pat"]).startswith(variant_prefix):
                    out.append(({b["lid"] for b in pat_bindings(arm["pat"])}, [arm["body"]]))
            return out
        if k == "Let" and is_within(expr, a["init"]):
            if pat_text(a["pat"]).startswith(variant_prefix):
                # the Let is (a conjunct of) an If / While condition
                o = a
                while o.get("_p") is not None and o["_p"].get("k") == "Binary":
                    o = o["_p"]
                owner = o.get("_p") or {}
                if owner.get("k") == "If":
                    out.append(({b["lid"] for b in pat_bindings(a["pat"])}, [owner["then"]]))
                elif owner.get("k") == "While":
                    out.append(({b["lid"] for b in pat_bindings(a["pat"])}, [owner["body"]]))
            return out
        if k == "LetStmt" and "init" in a and is_within(expr, a["init"]):
            if "else" in a and pat_text(a["pat"]).startswith(variant_prefix):
                blk = a["_p"]
                rest = []
                if blk.get("k") == "Block":
                    i = [j for j, st_ in enumerate(blk["stmts"]) if st_ is a]
                    if i:
                        rest = blk["stmts"][i[0] + 1:] + ([blk["expr"]] if "expr" in blk else [])
                out.append(({b["lid"] for b in pat_bindings(a["pat"])}, rest))
            return out
        if k in ("Block", "Closure") and k == "Closure":
            return out
    return out


def has_guard(guards, pred):
    return any(pred(g) for g in guards)


# ----------------------------------------------------------------------------
# must-pass-through (T2): abstract interpretation over the structured tree
# ----------------------------------------------------------------------------


class Flow:
    """Forward must-analysis.  State: True = every path reaching this point has
    passed a target since the last reset; False = some path has not; None =
    unreachable.  join(a, b) = a and b (None is the identity)."""

    def __init__(self, F, is_target, is_reset=None, enter_closure=None, count=False, probe=None, cond_hook=None):
        self.F = F
        self.probe = probe
        self.cond_hook = cond_hook
        self.probes = []  # (node, state)
        self.is_target = is_target
        self.is_reset = is_reset or (lambda n: False)
        # closures whose body is executed in place (e.g. the async-fn coroutine)
        self.enter_closure = enter_closure or (lambda n: False)
        self.exits = []  # (kind, node, state)
        self.loop_breaks = {}
        self.loop_conts = {}

    @staticmethod
    def join(a, b):
        if a is None:
            return b
        if b is None:
            return a
        return a and b

    def run(self, root, init=False):
        out = self.ev(root, init)
        if out is not None:
            self.exits.append(("fallthrough", root, out))
        return out

    def mark(self, n, st):
        if st is None:
            return None
        if self.probe is not None and self.probe(n):
            self.probes.append((n, st))
        if self.is_reset(n):
            st = False
        if self.is_target(n):
            st = True
        return st

    def seq(self, nodes, st):
        for x in nodes:
            st = self.ev(x, st)
        return st

    def cond(self, c, st):
        """Evaluate a condition; returns (state_if_true, state_if_false)."""
        c0 = c
        k = c.get("k")
        if k == "Binary" and c["op"] == "&&":
            lt, lf = self.cond(c["l"], st)
            rt, rf = self.cond(c["r"], lt)
            return self.mark(c, rt), self.mark(c, self.join(lf, rf))
        if k == "Binary" and c["op"] == "||":
            lt, lf = self.cond(c["l"], st)
            rt, rf = self.cond(c["r"], lf)
            return self.mark(c, self.join(lt, rt)), self.mark(c, rf)
        if k == "Unary" and c["op"] == "!":
            t, f = self.cond(c["e"], st)
            return self.mark(c, f), self.mark(c, t)
        s = self.ev(c, st)
        if s is not None and self.cond_hook is not None:
            h = self.cond_hook(c)
            if h is not None:
                # h = (counts_as_passed_when_true, counts_as_passed_when_false)
                return (True if h[0] else s), (True if h[1] else s)
        return s, s

    def ev(self, n, st):
        if st is None:
            return None
        F = self.F
        k = n.get("k")
        if k is None:
            # body object {params, value}
            if "value" in n:
                return self.ev(n["value"], st)
            return st
        if k == "Block":
            if n.get("inl_of"):
                h = n["h"]
                self.loop_breaks[h] = None
                st = self.seq(n["stmts"], st)
                if "expr" in n:
                    st = self.ev(n["expr"], st)
                st = self.join(st, self.loop_breaks.pop(h))
                return self.mark(n, st)
            st = self.seq(n["stmts"], st)
            if "expr" in n:
                st = self.ev(n["expr"], st)
            return self.mark(n, st)
        if k == "ArgRef":
            return st
        if k == "Semi":
            return self.ev(n["e"], st)
        if k == "LetStmt":
            if "init" in n:
                st = self.ev(n["init"], st)
            if "else" in n and st is not None:
                self.ev(n["else"], st)  # diverges; records exits
            return self.mark(n, st)
        if k == "If":
            t, f = self.cond(n["cond"], st)
            a = self.ev(n["then"], t)
            b = self.ev(n["else"], f) if "else" in n else f
            return self.mark(n, self.join(a, b))
        if k == "Match":
            st = self.ev(n["scrut"], st)
            out = None
            fall = st  # state flowing to the next arm when a guard fails
            for a in n["arms"]:
                s = fall
                if "guard" in a:
                    gt, gf = self.cond(a["guard"], s)
                    s = gt
                    fall = self.join(fall, gf)
                out = self.join(out, self.ev(a["body"], s))
            if not n["arms"]:
                out = None
            return self.mark(n, out)
        if k in ("Loop", "While", "For"):
            h = n.get("h")
            if k == "For":
                st = self.ev(n["iter"], st)
            head = st
            result = None
            for _ in range(3):
                self.loop_breaks[h] = None
                self.loop_conts[h] = None
                saved = len(self.exits)
                if k == "While":
                    t, f = self.cond(n["cond"], head)
                    body_out = self.ev(n["body"], t)
                    exit_normal = f
                elif k == "For":
                    body_out = self.ev(n["body"], head)
                    exit_normal = head
                else:
                    body_out = self.ev(n["body"], head)
                    exit_normal = None
                back = self.join(body_out, self.loop_conts[h])
                new_head = self.join(st, back)
                result = self.join(exit_normal, self.loop_breaks[h])
                if new_head == head:
                    break
                head = new_head
                del self.exits[saved:]
            return self.mark(n, result)
        if k == "Break":
            if "e" in n:
                st = self.ev(n["e"], st)
            t = n.get("target")
            if t in self.loop_breaks:
                self.loop_breaks[t] = self.join(self.loop_breaks[t], st)
            else:
                self.exits.append(("break", n, st))
            return None
        if k == "Continue":
            t = n.get("target")
            if t in self.loop_conts:
                self.loop_conts[t] = self.join(self.loop_conts[t], st)
            else:
                self.exits.append(("continue", n, st))
            return None
        if k == "Ret":
            if "e" in n:
                st = self.ev(n["e"], st)
            if st is not None:
                self.exits.append(("return", n, st))
            return None
        if k == "Try":
            st = self.ev(n["e"], st)
            if st is not None:
                self.exits.append(("error", n, st))
            return self.mark(n, st)
        if k == "Closure":
            if self.enter_closure(n):
                return self.mark(n, self.ev(n["body"], st))
            return self.mark(n, st)
        if k == "Binary" and n["op"] in ("&&", "||"):
            t, f = self.cond(n, st)
            return self.join(t, f)
        if k == "Call":
            if "f" in n:
                st = self.ev(n["f"], st)
            st = self.seq(n["args"], st)
            if "inl" in n:
                st = self.ev(n["inl"], st)
            st = self.mark(n, st)
            if st is not None and F.ty(n) == "!":
                return None
            return st
        if k == "MethodCall":
            st = self.ev(n["recv"], st)
            st = self.seq(n["args"], st)
            if "inl" in n:
                st = self.ev(n["inl"], st)
            st = self.mark(n, st)
            if st is not None and F.ty(n) == "!":
                return None
            return st
        if k == "Struct":
            st = self.seq([f["e"] for f in n["fields"]], st)
            if "base" in n:
                st = self.ev(n["base"], st)
            return self.mark(n, st)
        if k in ("Assign", "AssignOp"):
            st = self.ev(n["r"], st)
            st = self.ev(n["l"], st)
            return self.mark(n, st)
        if k == "Pat":
            return st
        if k == "Let":
            st = self.ev(n["init"], st)
            return self.mark(n, st)
        # generic: evaluate children in order
        for c in children(n):
            if c.get("k") == "Pat":
                continue
            st = self.ev(c, st)
        st = self.mark(n, st)
        if st is not None and F.ty(n) == "!" and k not in ("Path",):
            return None
        return st


def fn_root(b):
    """The executed root of a body: for `async fn` the inner coroutine body."""
    v = b["body"]["value"]
    return v


def is_async_fn_closure(n):
    return n.get("k") == "Closure" and n.get("ck", "").startswith("coroutine") and "Fn" in n.get("ck", "")


def must_pass(F, root, is_target, is_reset=None, init=False, enter_closure=None, exit_kinds=("fallthrough", "return")):
    """Returns list of offending exits (kind, node) reached on some path that
    has not passed a target (since the last reset / since entry)."""
    fl = Flow(F, is_target, is_reset, enter_closure or is_async_fn_closure)
    fl.run(root, init)
    bad = []
    for kind, node, st in fl.exits:
        if kind in exit_kinds and st is False:
            bad.append((kind, node))
    return bad, fl


# ----------------------------------------------------------------------------
# provenance (T4): definitions of a local
# ----------------------------------------------------------------------------


def local_defs(b, lid, name=None):
    """All definitions of local `lid` in top-level body b.  Returns list of
    (kind, node, extra):
      ('param', pat, index) | ('let', init_expr, pat) | ('letpat', pat, init)
      | ('assign', rhs, assign_node) | ('pat', binding_pat, container)"""
    out = []
    for n in b["_nodes"]:
        k = n["k"]
        if k == "Pat" and n.get("pk") == "bind" and n.get("lid") == lid:
            # find what binds it
            p = n["_p"]
            role = n["_role"]
            top_pat = n
            while p is not None and (p.get("k") == "Pat" or ("pat" in p and "k" not in p and "name" in p)):
                if p.get("k") == "Pat":
                    top_pat = p
                p = p["_p"]
            owner = top_pat["_p"]
            ok = owner.get("k")
            direct = top_pat is n
            if ok == "LetStmt":
                if "init" in owner:
                    out.append(("let" if direct else "letpat", owner["init"], top_pat, n))
                else:
                    out.append(("let_uninit", None, top_pat, n))
            elif ok == "Let":
                out.append(("let" if direct else "letpat", owner["init"], top_pat, n))
            elif ok == "For":
                out.append(("for", owner["iter"], top_pat, n))
            elif ok is None and "params" in owner:
                idx = top_pat["_role"][1]
                out.append(("param", None, top_pat, n, idx, owner))
            elif ok is None and "body" in owner and "pat" in owner:
                m = owner["_p"]
                out.append(("arm", m["scrut"], top_pat, n))
            else:
                out.append(("other", None, top_pat, n))
        elif k == "Assign":
            l = peel(n["l"])
            if l.get("k") == "Path" and l.get("res") == "local" and l.get("lid") == lid:
                out.append(("assign", n["r"], n, None))
    return out


def uses_local(root, lid):
    return [n for n in walk(root) if n.get("k") == "Path" and n.get("res") == "local" and n.get("lid") == lid]


def sub_pat_accessor(top_pat, bind):
    """Field path from top_pat down to the binding (list of names / indices /
    variant paths)."""
    path = []
    n = bind
    while n is not top_pat:
        p = n["_p"]
        role = n["_role"]
        if "k" not in p and "name" in p:  # field pat object
            path.append(p["name"])
            n = p
            continue
        if p.get("k") == "Pat":
            if p.get("pk") in ("tuplestruct",):
                path.append("%s.%s" % (p.get("path"), role[1] if isinstance(role, tuple) else role))
            elif p.get("pk") == "struct":
                pass
            elif p.get("pk") == "tuple":
                path.append(str(role[1]))
        n = p
    path.reverse()
    return path


# ----------------------------------------------------------------------------
# results / evidence
# ----------------------------------------------------------------------------


class Report:
    def __init__(self, pid):
        self.pid = pid
        self.obligations = []  # dict(rule, instance, ok, detail)
        self.violations = []  # dict(key, rule, where, msg)
        self.notes = []
        self.samples = []
        self.floors = []  # (what, count, floor)
        self.analysed = {}
        self.assumptions = []
        self.selftest = None

    def ob(self, rule, instance, ok, detail="", where_="", key=None, nontrivial=True):
        self.obligations.append({"rule": rule, "instance": instance, "ok": bool(ok), "detail": detail, "nontrivial": nontrivial})
        if not ok:
            self.violations.append({
                "key": key or "%s|%s|%s" % (self.pid, rule, instance),
                "rule": rule,
                "where": where_,
                "msg": detail,
            })
        return ok

    def violation(self, rule, instance, msg, where_="", key=None):
        return self.ob(rule, instance, False, msg, where_, key)

    def floor(self, what, count, floor):
        """Fail closed when a rule matched fewer instances than were confirmed
        by hand on the tree the rule was armed against."""
        self.floors.append((what, count, floor))
        if count < floor:
            self.violations.append({
                "key": "%s|FLOOR|%s" % (self.pid, what),
                "rule": "floor",
                "where": "",
                "msg": "rule `%s` matched %d instance(s), fewer than the %d confirmed by hand — the rule may be passing vacuously (anchor moved?)" % (what, count, floor),
            })

    def anchor_lost(self, rule, msg):
        self.violations.append({"key": "%s|ANCHOR-LOST|%s" % (self.pid, rule), "rule": rule, "where": "", "msg": "ANCHOR-LOST " + msg})

    def sample(self, s):
        if len(self.samples) < 12:
            self.samples.append(s)

    def note(self, s):
        self.notes.append(s)


# ----------------------------------------------------------------------------
# backward value slice (T4 provenance), field-based interprocedural
# ----------------------------------------------------------------------------

WRAP_CTORS = ("Some", "Ok", "Err")

TRANSPARENT_METHODS = CLONE_LIKE | {
    "std::string::ToString::to_string",
    "std::option::Option::take",
    "std::option::Option::unwrap",
    "std::option::Option::expect",
    "std::option::Option::unwrap_or_default",
    "std::result::Result::unwrap",
    "std::result::Result::ok",
    "std::result::Result::map_err",
    "std::result::Result::expect",
    "std::boxed::Box::new",
    "std::rc::Rc::new",
    "std::sync::Arc::new",
    "std::option::Option::flatten",
    "std::option::Option::as_deref_mut",
    "std::mem::take",
}

CLOSURE_RESULT_METHODS = {
    "std::option::Option::map",
    "std::option::Option::and_then",
    "std::result::Result::map",
    "std::result::Result::and_then",
}

ALT_METHODS = {
    # value is either the receiver's payload or the argument / closure result
    "std::option::Option::or",
    "std::option::Option::or_else",
    "std::option::Option::unwrap_or",
    "std::option::Option::unwrap_or_else",
    "std::result::Result::unwrap_or_else",
    "std::result::Result::unwrap_or",
}


class Leaf:
    __slots__ = ("kind", "what", "node")

    def __init__(self, kind, what, node=None):
        self.kind = kind
        self.what = what
        self.node = node

    def key(self):
        fn = self.node["_top"]["path"] if self.node is not None else ""
        return "%s:%s@%s" % (self.kind, self.what, fn)

    def __repr__(self):
        return self.key()


class Slicer:
    """origins(expr): the set of leaves an expression's value may come from.
    Leaves: src (a declared source call), lit, ctor (unit constructor such as
    None), param (function parameter with no visible caller), unknown."""

    def __init__(self, F, sources=(), transparent=(), max_depth=40):
        self.F = F
        self.sources = tuple(sources)
        self.transparent = set(transparent) | TRANSPARENT_METHODS
        self.max_depth = max_depth
        self._field_inits = None
        self._callers = None
        self.visited_fns = set()

    # -- indexes ---------------------------------------------------------------
    def field_inits(self):
        """(variant path, field) -> list of initialiser expressions; includes
        assignments to `x.field` where x has that ADT type."""
        if self._field_inits is None:
            idx = {}
            for n in self.F.all_nodes():
                if n["k"] == "Struct" and n.get("variant"):
                    names = set()
                    for f in n["fields"]:
                        idx.setdefault((n["variant"], f["name"]), []).append(f["e"])
                        names.add(f["name"])
                    if "base" in n:
                        idx.setdefault((n["variant"], "__base__"), []).append(n["base"])
                elif n["k"] == "Assign":
                    l = peel(n["l"])
                    if l.get("k") == "Field" and l.get("adt"):
                        idx.setdefault((l["adt"], l["field"]), []).append(n["r"])
            self._field_inits = idx
        return self._field_inits

    def callers(self):
        if self._callers is None:
            idx = {}
            for n in self.F.all_nodes():
                if n["k"] in ("Call", "MethodCall"):
                    for c in (n.get("fn"), n.get("impl")):
                        if c:
                            idx.setdefault(c, []).append(n)
            self._callers = idx
        return self._callers

    # -- main -------------------------------------------------------------------
    def origins(self, e, depth=0, seen=None, proj=()):
        if seen is None:
            seen = set()
        out = []
        self._o(e, depth, seen, proj, out)
        # dedupe by key
        uniq = {}
        for l in out:
            uniq.setdefault(l.key() + str(l.node["id"] if l.node else ""), l)
        return list(uniq.values())

    def _o(self, e, depth, seen, proj, out):
        F = self.F
        if depth > self.max_depth:
            out.append(Leaf("unknown", "depth", e))
            return
        e = peel(e)
        k = e.get("k")
        sid = (e["id"], proj)
        if sid in seen:
            return
        seen.add(sid)
        d = depth + 1
        if k == "Lit":
            out.append(Leaf("lit", repr(e.get("v")), e))
            return
        if k in ("Call", "MethodCall"):
            if callee_matches(e, self.sources):
                out.append(Leaf("src", e.get("fn"), e))
                return
            fn = e.get("fn")
            ct = e.get("ctor")
            if ct is not None:
                last = ct.split("::")[-1]
                if last in WRAP_CTORS and len(e["args"]) == 1:
                    self._o(e["args"][0], d, seen, proj, out)
                    return
                # tuple struct / variant: field-based by index when projected
                out.append(Leaf("ctor", ct, e))
                return
            args = call_args(e)
            if fn in self.transparent and args:
                self._o(args[0], d, seen, proj, out)
                return
            if fn in ("std::option::Option::filter", "std::option::Option::take_if", "std::option::Option::xor") and args:
                # may turn a known value into None
                self._o(args[0], d, seen, proj, out)
                out.append(Leaf("ctor", "std::option::Option::None", e))
                return
            if fn in CLOSURE_RESULT_METHODS and len(args) == 2:
                c = peel(args[1])
                if c.get("k") == "Closure":
                    self._o(c["body"]["value"], d, seen, proj, out)
                    return
                if c.get("k") == "Path" and c.get("res") in ("ctor",):
                    self._o(args[0], d, seen, proj, out)
                    return
                if c.get("k") == "Path" and c.get("res") == "fn":
                    # e.g. .map(LoaderChecksum::new)
                    if c.get("path") in self.transparent or any(c.get("path", "").endswith(s) for s in self.sources):
                        self._o(args[0], d, seen, proj, out)
                        return
            if fn in ALT_METHODS and len(args) == 2:
                self._o(args[0], d, seen, proj, out)
                c = peel(args[1])
                if c.get("k") == "Closure":
                    self._o(c["body"]["value"], d, seen, proj, out)
                else:
                    self._o(c, d, seen, proj, out)
                return
            if fn == "std::option::Option::then" or fn == "core::bool::then":
                c = peel(args[1])
                if c.get("k") == "Closure":
                    self._o(c["body"]["value"], d, seen, proj, out)
                    out.append(Leaf("ctor", "std::prelude::v1::None", e))
                    return
            # local function: follow its return value(s)
            tgt = e.get("impl") or fn
            bodies = F.by_path.get(tgt) if tgt else None
            if bodies:
                for r in return_values(F, bodies[0]):
                    self._o(r, d, seen, proj, out)
                return
            # call of a closure bound to a local
            if k == "Call" and "f" in e:
                f = peel(e["f"])
                if f.get("k") == "Path" and f.get("res") == "local":
                    for kind, init, *_ in local_defs(e["_top"], f["lid"]):
                        if kind == "let" and peel(init).get("k") == "Closure":
                            self._o(peel(init)["body"]["value"], d, seen, proj, out)
                            return
            out.append(Leaf("unknown", "call %s" % (fn or expr_text(e)), e))
            return
        if k == "Path":
            res = e.get("res")
            if res == "local":
                self._local(e, d, seen, proj, out)
                return
            if res == "ctor":
                out.append(Leaf("ctor", e.get("path"), e))
                return
            if res in ("const", "static"):
                out.append(Leaf("const", e.get("path"), e))
                return
            out.append(Leaf("unknown", "path %s" % e.get("path"), e))
            return
        if k == "Field":
            base = peel(e["e"])
            # tuple projection on a local / literal
            if e["field"].isdigit():
                self._o(base, d, seen, (int(e["field"]),) + proj, out)
                return
            adt = e.get("adt")
            if adt:
                self._field(adt, e["field"], e, d, seen, proj, out)
                return
            out.append(Leaf("unknown", "field %s" % e["field"], e))
            return
        if k == "Tup":
            if proj and isinstance(proj[0], int) and proj[0] < len(e["args"]):
                self._o(e["args"][proj[0]], d, seen, proj[1:], out)
            else:
                for a in e["args"]:
                    self._o(a, d, seen, proj, out)
            return
        if k == "Struct":
            out.append(Leaf("ctor", e.get("variant"), e))
            return
        if k in ("Try", "Await", "Cast", "Type"):
            self._o(e["e"], d, seen, proj, out)
            return
        if k == "If":
            self._o(e["then"], d, seen, proj, out)
            if "else" in e:
                self._o(e["else"], d, seen, proj, out)
            return
        if k == "Match":
            for a in e["arms"]:
                if not diverges(F, a["body"]):
                    self._o(a["body"], d, seen, proj, out)
            return
        if k == "Block":
            if "expr" in e:
                self._o(e["expr"], d, seen, proj, out)
            else:
                out.append(Leaf("unknown", "block without value", e))
            return
        if k == "Closure":
            out.append(Leaf("closure", "closure", e))
            return
        if k in ("Binary", "Unary"):
            out.append(Leaf("computed", expr_text(e), e))
            return
        out.append(Leaf("unknown", k, e))

    def _local(self, e, d, seen, proj, out):
        b = e["_top"]
        defs = local_defs(b, e["lid"])
        if not defs:
            out.append(Leaf("unknown", "local %s without def" % e.get("name"), e))
            return
        for df in defs:
            kind = df[0]
            if kind in ("let", "assign"):
                self._o(df[1], d, seen, proj, out)
            elif kind in ("letpat", "arm", "for"):
                top_pat, bind = df[2], df[3]
                self._through_pat(df[1], top_pat, bind, d, seen, proj, out)
            elif kind == "param":
                top_pat, bind, idx, owner = df[2], df[3], df[4], df[5]
                if top_pat is not bind:
                    # destructured parameter: field-based
                    self._through_pat(None, top_pat, bind, d, seen, proj, out)
                else:
                    self._param(b, owner, idx, bind, d, seen, proj, out)
            elif kind == "let_uninit":
                pass  # assignments are separate defs
            else:
                out.append(Leaf("unknown", "binding %s" % e.get("name"), e))

    def _through_pat(self, scrut, top_pat, bind, d, seen, proj, out):
        """binding `bind` inside `top_pat` matched against `scrut`."""
        # walk from bind up to top_pat collecting accessors (innermost first)
        acc = []
        n = bind
        while n is not top_pat:
            p = n["_p"]
            role = n["_role"]
            if "k" not in p and "name" in p and "pat" in p:
                # field pattern object {name, pat}; its parent is a struct pat
                sp = p["_p"]
                acc.append(("field", sp.get("path"), p["name"]))
                n = sp
                continue
            pk = p.get("pk")
            if pk == "tuplestruct":
                last = (p.get("path") or "").split("::")[-1]
                if last in WRAP_CTORS:
                    acc.append(("wrap",))
                else:
                    acc.append(("tfield", p.get("path"), role[1]))
            elif pk == "tuple":
                acc.append(("tuple", role[1]))
            elif pk in ("ref", "box", "deref", "or", "bind", "guard"):
                pass
            elif pk == "slice":
                acc.append(("elem",))
            n = p
        # apply: outermost accessor is last in acc
        acc.reverse()
        # Named field access is field-based: everything before the *last* named
        # field accessor is irrelevant.
        last_named = None
        for i, a in enumerate(acc):
            if a[0] in ("field", "tfield"):
                last_named = i
        if last_named is not None:
            a = acc[last_named]
            rest = acc[last_named + 1:]
            p2 = tuple(x[1] for x in rest if x[0] == "tuple") + proj
            tmp = []
            if a[0] == "field":
                self._field(a[1], a[2], bind, d, seen, p2, tmp)
            else:
                self._tfield(a[1], a[2], bind, d, seen, p2, tmp)
            if any(x[0] == "wrap" for x in rest):
                tmp = [l for l in tmp if not (l.kind == "ctor" and (l.what or "").endswith("::None"))]
            out.extend(tmp)
            return
        if scrut is None:
            out.append(Leaf("unknown", "pattern on parameter", bind))
            return
        p2 = tuple(x[1] for x in acc if x[0] == "tuple") + proj
        tmp = []
        self._o(scrut, d, seen, p2, tmp)
        if any(a[0] == "wrap" for a in acc):
            # a `Some(x)` / `Ok(x)` pattern never binds from a unit `None`
            tmp = [l for l in tmp if not (l.kind == "ctor" and (l.what or "").endswith("::None"))]
        out.extend(tmp)

    def _field(self, adt, field, at, d, seen, proj, out):
        inits = self.field_inits().get((adt, field), [])
        bases = self.field_inits().get((adt, "__base__"), [])
        if not inits and not bases:
            # maybe an enum struct-variant recorded under adt path of the enum
            out.append(Leaf("field-no-init", "%s.%s" % (adt, field), at))
            return
        for i in inits:
            self._o(i, d, seen, proj, out)
        for b in bases:
            # `..Default::default()` / `..other`
            bb = peel(b)
            if bb.get("k") == "Call" and (bb.get("fn") or "").endswith("Default::default"):
                out.append(Leaf("default", "%s.%s" % (adt, field), bb))
            else:
                out.append(Leaf("unknown", "struct base for %s.%s" % (adt, field), bb))

    def _tfield(self, variant, idx, at, d, seen, proj, out):
        found = False
        for n in self.F.all_nodes():
            if n["k"] == "Call" and n.get("ctor") == variant and idx < len(n["args"]):
                found = True
                self._o(n["args"][idx], d, seen, proj, out)
        if not found:
            out.append(Leaf("field-no-init", "%s.%s" % (variant, idx), at))

    def _param(self, b, owner, idx, bind, d, seen, proj, out):
        F = self.F
        parent = owner.get("_p")
        if parent is not None and parent.get("k") == "Closure":
            clo = parent
            ck = clo.get("ck", "")
            if ck.startswith("coroutine") and "Fn" in ck:
                # async fn's inner coroutine re-binding: params are the fn's
                pass
            # closure bound to a local and called by name?
            cp = clo.get("_p")
            holder = None
            x = clo
            while cp is not None and cp.get("k") in ("Block",) and not cp["stmts"]:
                x = cp
                cp = cp.get("_p")
            if cp is not None and cp.get("k") == "LetStmt" and cp["pat"].get("pk") == "bind":
                lid = cp["pat"]["lid"]
                calls = [n for n in b["_nodes"] if n["k"] == "Call" and "f" in n and peel(n["f"]).get("k") == "Path" and peel(n["f"]).get("lid") == lid]
                if calls:
                    for c in calls:
                        if idx < len(c["args"]):
                            self._o(c["args"][idx], d, seen, proj, out)
                    return
            # closure passed to an adaptor: parameter comes from the receiver
            if cp is not None and cp.get("k") == "MethodCall":
                fn = cp.get("fn") or ""
                if fn in CLOSURE_RESULT_METHODS or fn in ALT_METHODS or fn.startswith("std::iter::Iterator::") or fn.startswith("std::option::Option::") or fn.startswith("std::result::Result::"):
                    self._o(cp["recv"], d, seen, proj, out)
                    return
            out.append(Leaf("unknown", "closure parameter %s" % bind.get("name"), bind))
            return
        # named function: callers
        path = b["path"]
        self.visited_fns.add(path)
        names = [path]
        if b.get("trait_method"):
            names.append(b["trait_method"])
        sites = []
        for nm in names:
            sites += self.callers().get(nm, [])
        if not sites:
            out.append(Leaf("param", "%s#%d" % (path, idx), bind))
            return
        for c in sites:
            args = call_args(c)
            if idx < len(args):
                self._o(args[idx], d, seen, proj, out)
        if b.get("reachable") and b.get("pub"):
            out.append(Leaf("param", "%s#%d(public)" % (path, idx), bind))


def return_values(F, b):
    """Expressions whose value a body may return (tail + `return e`)."""
    out = []
    root = b["body"]["value"]
    # async fn: inner coroutine
    r = peel(root)
    if r.get("k") == "Closure" and is_async_fn_closure(r):
        root = r["body"]["value"]
    _tail_values(F, root, out)
    for n in walk(root, into_closures=False):
        if n["k"] == "Ret" and "e" in n:
            _tail_values(F, n["e"], out)
    return out


def _tail_values(F, e, out):
    e = peel(e)
    k = e.get("k")
    if k == "Block":
        if "expr" in e:
            _tail_values(F, e["expr"], out)
        return
    if k == "If":
        _tail_values(F, e["then"], out)
        if "else" in e:
            _tail_values(F, e["else"], out)
        return
    if k == "Match":
        for a in e["arms"]:
            _tail_values(F, a["body"], out)
        return
    if k in ("Ret", "Break", "Continue"):
        return
    if k in ("Call", "MethodCall") and "inl" in e:
        # a helper extracted after the rules were armed: its values are the call's values
        blk = e["inl"]
        _tail_values(F, blk, out)
        for n in walk(blk, into_closures=False):
            if n["k"] == "Break" and n.get("was_ret") and n.get("target") == blk["h"] and "e" in n:
                _tail_values(F, n["e"], out)
            elif n["k"] == "Try" and n["_top"] is e["_top"] and not any(a.get("k") == "Closure" for a in k_ancestors(n) if is_within(a, blk)):
                out.append({"k": "TryExit", "id": -1, "e": n["e"], "_p": n, "_top": n["_top"], "ln": n.get("ln")})
        return
    out.append(e)


# ----------------------------------------------------------------------------
# ordering: may a definition/effect at node d reach node u (structured code)
# ----------------------------------------------------------------------------


def _chain(n):
    c = [n]
    for a in ancestors(n):
        c.append(a)
    c.reverse()
    return c


def may_reach(F, d, u, scope=None):
    """Is there a control-flow path on which d is evaluated before u?  Both in
    the same top-level body.  Conservative towards True inside loops; with
    `scope` (a loop body / node containing both) only one execution of scope is
    considered (loops enclosing scope are ignored)."""
    if d["_top"] is not u["_top"]:
        return False
    cd, cu = _chain(d), _chain(u)
    i = 0
    while i < len(cd) and i < len(cu) and cd[i] is cu[i]:
        i += 1
    if i >= len(cd):
        return False  # d is an ancestor of u: d completes after u
    if i >= len(cu):
        return True  # u is an ancestor of d: d evaluated as part of u
    lca = cd[i - 1]
    a, b = cd[i], cu[i]
    # inside a common loop: any order is possible
    common = cd[:i]
    if scope is not None and any(x is scope for x in common):
        common = common[[j for j, x in enumerate(common) if x is scope][0]:]
    for x in common:
        if x.get("k") in ("Loop", "While", "For"):
            return True
    k = lca.get("k")
    ra, rb = a.get("_role"), b.get("_role")
    if k == "If":
        if ra == "cond":
            return True
        return False  # different branches, or branch -> cond
    if k is None and "arms" not in lca and "pat" in lca and "body" in lca:
        # arm object: guard before body
        return ra == "guard" and rb == "body"
    if k == "Match":
        if ra == "scrut":
            return True
        return False  # different arms
    if k == "Block":
        ia = ra[1] if isinstance(ra, tuple) else len(lca["stmts"])
        ib = rb[1] if isinstance(rb, tuple) else len(lca["stmts"])
        if ia >= ib:
            return False
        # a must be able to complete normally
        return not diverges(F, a)
    if k in ("Call", "MethodCall", "Struct", "Tup", "Array", "Binary", "Assign", "AssignOp", "Index"):
        order = {id(c): j for j, c in enumerate(children(lca))}
        # Assign evaluates rhs first
        if k in ("Assign", "AssignOp"):
            return ra == "r" and rb == "l"
        return order.get(id(a), 0) < order.get(id(b), 0)
    if k == "LetStmt":
        return ra == "init" and rb == "else"
    return a["id"] < b["id"] if "id" in a and "id" in b else False


# ----------------------------------------------------------------------------
# taint (PU): does an expression's value derive from a declared untrusted source
# ----------------------------------------------------------------------------


class Taint:
    def __init__(self, F, source_calls=(), source_fields=(), source_types=(), max_depth=25):
        self.F = F
        self.source_calls = tuple(source_calls)
        self.source_fields = set(source_fields)  # (adt-or-variant path, field)
        self.source_types = tuple(source_types)  # type-string prefixes whose method results are tainted
        self.max_depth = max_depth
        self._callers = None
        self.memo = {}

    def callers(self):
        if self._callers is None:
            idx = {}
            for n in self.F.all_nodes():
                if n["k"] in ("Call", "MethodCall"):
                    for c in (n.get("fn"), n.get("impl")):
                        if c:
                            idx.setdefault(c, []).append(n)
            self._callers = idx
        return self._callers

    def why(self, e, depth=0, seen=None):
        """None if untainted, else a short provenance string."""
        if seen is None:
            seen = set()
        if depth > self.max_depth:
            return None
        e = peel(e)
        k = e.get("k")
        if "id" in e:
            if e["id"] in seen:
                return None
            seen.add(e["id"])
        d = depth + 1
        if k in ("Call", "MethodCall"):
            if callee_matches(e, self.source_calls):
                return "result of %s" % e.get("fn")
            if k == "MethodCall":
                rt = self.F.tystr(e.get("recv_ty")) or ""
                if any(rt.startswith(p) for p in self.source_types):
                    return "method `%s` on untrusted %s" % (e["name"], rt[:50])
            for a in call_args(e):
                w = self.why(a, d, seen)
                if w:
                    return w
            if "f" in e:
                return self.why(e["f"], d, seen)
            return None
        if k == "Field":
            if (e.get("adt"), e["field"]) in self.source_fields:
                return "field %s.%s" % (e.get("adt"), e["field"])
            return self._field_of(e["e"], e["field"], d, seen)
        if k == "Path" and e.get("res") == "local":
            return self._local(e, d, seen)
        if k in ("Lit",):
            return None
        if k == "Closure":
            return self.why(e["body"]["value"], d, seen)
        if k == "Block":
            return self.why(e["expr"], d, seen) if "expr" in e else None
        if k == "Match":
            w = self.why(e["scrut"], d, seen)
            if w:
                return w
            for a in e["arms"]:
                w = self.why(a["body"], d, seen)
                if w:
                    return w
            return None
        if k == "If":
            for key in ("then", "else"):
                if key in e:
                    w = self.why(e[key], d, seen)
                    if w:
                        return w
            return None
        for c in children(e):
            if c.get("k") == "Pat":
                continue
            w = self.why(c, d, seen)
            if w:
                return w
        return None

    def _field_of(self, base, field, d, seen):
        """taint of `base.field`, field-sensitive where base resolves to a
        struct literal (directly, through a local, or through a parameter)."""
        if d > self.max_depth:
            return None
        base = peel_value(base)
        k = base.get("k")
        if k == "Struct":
            for f in base["fields"]:
                if f["name"] == field:
                    return self.why(f["e"], d + 1, seen)
            if "base" in base:
                return self._field_of(base["base"], field, d + 1, seen)
            return None
        if k == "Path" and base.get("res") == "local":
            key = ("fld", base["_top"]["path"], base["lid"], field)
            if key in seen:
                return None
            seen.add(key)
            b = base["_top"]
            for df in local_defs(b, base["lid"]):
                kind = df[0]
                if kind in ("let", "assign") and df[1] is not None:
                    w = self._field_of(df[1], field, d + 1, seen)
                    if w:
                        return w
                elif kind == "param":
                    top_pat, bind, idx, owner = df[2], df[3], df[4], df[5]
                    if bind.get("name") == "self":
                        continue
                    parent = owner.get("_p")
                    if parent is not None and parent.get("k") == "Closure":
                        w = self.why(base, d + 1, seen)
                        if w:
                            return w
                        continue
                    names = [b["path"]] + ([b["trait_method"]] if b.get("trait_method") else [])
                    for nm in names:
                        for c in self.callers().get(nm, []):
                            args = call_args(c)
                            if idx < len(args):
                                w = self._field_of(args[idx], field, d + 1, seen)
                                if w:
                                    return w
                else:
                    w = self.why(base, d + 1, seen)
                    if w:
                        return w
            return None
        return self.why(base, d, seen)

    def _pat_field_source(self, top_pat, bind):
        n = bind
        while n is not top_pat:
            p = n["_p"]
            if "k" not in p and "name" in p and "pat" in p:
                sp = p["_p"]
                if (sp.get("path"), p["name"]) in self.source_fields:
                    return "field %s.%s" % (sp.get("path"), p["name"])
                n = sp
                continue
            n = p
        return None

    def _local(self, e, d, seen):
        b = e["_top"]
        for df in local_defs(b, e["lid"]):
            kind = df[0]
            if kind in ("let", "assign"):
                w = self.why(df[1], d, seen)
                if w:
                    return w
            elif kind in ("letpat", "arm", "for"):
                w = self._pat_field_source(df[2], df[3])
                if w:
                    return w
                if df[1] is not None:
                    w = self.why(df[1], d, seen)
                    if w:
                        return w
            elif kind == "param":
                top_pat, bind, idx, owner = df[2], df[3], df[4], df[5]
                w = self._pat_field_source(top_pat, bind)
                if w:
                    return w
                parent = owner.get("_p")
                if parent is not None and parent.get("k") == "Closure":
                    cp = parent.get("_p")
                    if cp is not None and cp.get("k") == "MethodCall":
                        w = self.why(cp["recv"], d, seen)
                        if w:
                            return w
                    continue
                if bind.get("name") == "self":
                    continue  # receivers are not followed across calls
                names = [b["path"]] + ([b["trait_method"]] if b.get("trait_method") else [])
                for nm in names:
                    for c in self.callers().get(nm, []):
                        args = call_args(c)
                        if idx < len(args):
                            w = self.why(args[idx], d, seen)
                            if w:
                                return w
        return None


PANIC_MACROS = ("unreachable", "panic", "assert", "assert_eq", "assert_ne", "todo", "unimplemented")
UNWRAP_FNS = {
    "std::option::Option::unwrap", "std::option::Option::expect",
    "std::result::Result::unwrap", "std::result::Result::expect", "std::result::Result::unwrap_err",
}


def panic_sinks(b):
    """(kind, node, operand) for every potential panic site in body b."""
    out = []
    seen_macro = set()
    for n in b["_nodes"]:
        k = n["k"]
        if k == "MethodCall" and n.get("fn") in UNWRAP_FNS and not (n.get("mac") and any(m in ("format", "write", "writeln", "print", "println") for m in n["mac"])):
            out.append(("unwrap", n, n["recv"]))
        elif k == "Index":
            out.append(("index", n, n))
        elif k == "MethodCall" and n.get("fn") in ("std::vec::Vec::remove", "std::vec::Vec::swap_remove", "std::collections::VecDeque::remove"):
            out.append(("remove", n, n))
        m = n.get("mac")
        if m and any(x in PANIC_MACROS for x in m) and not any(x.startswith("debug_assert") for x in m):
            # outermost node of this macro expansion
            p = n.get("_p")
            if p is not None and p.get("mac") == m:
                continue
            key = (n["ln"], tuple(m))
            if key in seen_macro:
                continue
            seen_macro.add(key)
            name = [x for x in m if x in PANIC_MACROS][0]
            out.append((name + "!", n, n))
    return out


# ----------------------------------------------------------------------------
# call-graph SCCs (T7)
# ----------------------------------------------------------------------------


def sccs(graph, nodes):
    """Tarjan over `graph` (dict node -> iterable) restricted to `nodes`."""
    nodes = set(nodes)
    index = {}
    low = {}
    onstack = set()
    stack = []
    out = []
    counter = [0]
    import sys as _sys
    _sys.setrecursionlimit(10000)

    def strong(v):
        index[v] = low[v] = counter[0]
        counter[0] += 1
        stack.append(v)
        onstack.add(v)
        for w in graph.get(v, ()):
            if w not in nodes:
                continue
            if w not in index:
                strong(w)
                low[v] = min(low[v], low[w])
            elif w in onstack:
                low[v] = min(low[v], index[w])
        if low[v] == index[v]:
            comp = []
            while True:
                w = stack.pop()
                onstack.discard(w)
                comp.append(w)
                if w == v:
                    break
            out.append(comp)

    for v in sorted(nodes):
        if v not in index:
            strong(v)
    return out


def has_cycle(graph, nodes):
    nodes = set(nodes)
    for comp in sccs(graph, nodes):
        if len(comp) > 1:
            return True
        v = comp[0]
        if v in graph.get(v, ()):
            return True
    return False


def call_edges(F, b, targets):
    """call nodes in body b whose (resolved) callee is in `targets`."""
    out = []
    for n in b["_nodes"]:
        if n["k"] in ("Call", "MethodCall"):
            t = n.get("impl") or n.get("fn")
            if t in targets:
                out.append((n, t))
            elif n.get("fn") in targets:
                out.append((n, n["fn"]))
    return out


class CountFlow(Flow):
    """Counts events along paths: state = frozenset of possible counts (capped
    at 2), None = unreachable."""

    def __init__(self, F, is_event, **kw):
        Flow.__init__(self, F, is_target=lambda n: False, **kw)
        self.is_event = is_event

    @staticmethod
    def join(a, b):
        if a is None:
            return b
        if b is None:
            return a
        return a | b

    def mark(self, n, st):
        if st is None:
            return None
        if self.probe is not None and self.probe(n):
            self.probes.append((n, st))
        w = self.is_event(n)
        if w:
            st = frozenset(min(2, c + 1) for c in st)
        return st


def expand_local_guards(F, guards, body, depth=3):
    """For guards that are plain boolean locals with a single `let` definition
    (`let check_types = a && b;`), add the conjuncts (polarity true) /
    disjuncts (polarity false) of the definition."""
    out = list(guards)
    work = list(guards)
    for _ in range(depth):
        new = []
        for g in work:
            if g.kind != "cond":
                continue
            n = peel(g.node)
            if n.get("k") == "Path" and n.get("res") == "local":
                defs = [d for d in local_defs(body, n["lid"]) if d[0] == "let" and d[1] is not None]
                assigns = [d for d in local_defs(body, n["lid"]) if d[0] == "assign"]
                if len(defs) == 1 and not assigns:
                    tmp = []
                    split_cond(defs[0][1], g.pol, tmp)
                    for t in tmp:
                        t.derived = True
                    new += tmp
        out += new
        work = new
        if not new:
            break
    return out


# ----------------------------------------------------------------------------
# name-independent matching helpers (locals are identified by type / definition)
# ----------------------------------------------------------------------------


def tyc(F, n, sub):
    """adjusted or plain type of node contains `sub`"""
    if n is None:
        return False
    return sub in (F.ty(n, True) or "") or sub in (F.ty(n) or "")


def local_init(n):
    """initialiser of a local that has exactly one `let` definition and no assignment"""
    n = peel_value(n)
    if n.get("k") != "Path" or n.get("res") != "local":
        return None
    ds = local_defs(n["_top"], n["lid"])
    lets = [d for d in ds if d[0] == "let" and d[1] is not None]
    if len(lets) == 1 and not [d for d in ds if d[0] == "assign"]:
        return lets[0][1]
    return None


def through_locals(n, depth=4):
    """n itself, or (recursively) the initialiser of the local it names"""
    out = [n]
    cur = n
    for _ in range(depth):
        i = local_init(cur)
        if i is None:
            break
        out.append(i)
        cur = i
    return out


def field_of(n):
    """name of the field the place expression n denotes, looking through
    `&`/deref/clone wrappers and single-definition locals that merely alias a
    place (`let slots = &mut self.graph.module_slots; slots.insert(..)`)"""
    if n is None:
        return None
    for y in through_locals(n):
        y = peel_value(y)
        if y.get("k") == "Field":
            return y["field"]
        if not (y.get("k") == "Path" and y.get("res") == "local"):
            return None
    return None


def mentions_field(e, field, adt=None):
    return any(x.get("k") == "Field" and x["field"] == field and (adt is None or x.get("adt") == adt) for x in walk(e))


def mentions_call(e, names):
    return any(callee_matches(x, names) for x in walk(e))


def is_neg_of_local(c, lid):
    c = peel(c)
    return c.get("k") == "Unary" and c["op"] == "!" and peel(c["e"]).get("lid") == lid


def ty_is(F, n, full):
    """type of node equals `full` modulo leading references"""
    if n is None:
        return False
    for t in (F.ty(n, True), F.ty(n)):
        if t is None:
            continue
        t = t.lstrip("&")
        if t.startswith("mut "):
            t = t[4:]
        t = t.lstrip("&")
        if t.startswith("mut "):
            t = t[4:]
        if t == full:
            return True
    return False
