"""C05 — known checksums are always enforced; new ones are recorded faithfully.

Decides (for every execution through the analysed text):
  a. every call that reaches `Loader::load` / `Loader::ensure_cached` passes a
     `LoadOptions.maybe_checksum` whose value can only come from a checksum
     source (lockfile lookup or version-manifest checksum); a `None` can only
     originate at the three reviewed places.
  b. `load_pending_module` consults the lockfile before building the load future
     whenever the queued item carries no checksum.
  c. in `try_load` the manifest-derived checksum assignment can reach every
     `LoadOptions` literal (it is not computed after they are built).
  d. retry discipline: `CacheSetting::Reload` only inside the ChecksumIntegrity
     arm under `maybe_version_info.is_none()`, no loop/recursion around loader
     calls, and that arm ends in an integrity error unless the retry succeeded.
  e. a redirect response is only constructed when there is no version info and
     no checksum; every `LoadResponse::Redirect` arm of a checksummed load maps
     to an error.
  f. lockfile writes: who may call the setters, under which guards, with which
     bytes.
  g. LoaderChecksum::gen is SHA-256 over exactly its argument; check_source
     accepts exactly on equality with it.
"""
from .lib import *

EXPLANATION = (
    "Structural necessary conditions of C05 decided over every Loader/Locker call site of the crate: "
    "interprocedural field-based backward slice of LoadOptions.maybe_checksum at each loader call (T4), "
    "must-pass-through of the lockfile lookup (T2), ordering of the manifest-checksum assignment (reaching defs), "
    "guard dominance for retry / redirect / lockfile writes (T5), who-may-call for Locker setters (T3). "
    "The behaviour of external Loader implementations is not decided."
)
EXPLANATION += " " + 'Plus: the package lookup that lets try_load derive the manifest checksum is guarded only by `version info not already known` (assets included).'
NOT_DECIDED = "that an arbitrary Loader implementation verifies the checksum it is given; byte-level equality of hashed and stored content beyond 'same variable'"
CONFIGS = ["default", "nofastcheck"]  # thorough tier also analyses the build without fast_check / symbols
ASSUMPTIONS = [
    "Loader implementations honour LoadOptions.maybe_checksum (outside the crate)",
    "field-based slicing: all struct literals of a type are treated as possible producers of each field read",
]

SOURCES = [
    "Locker::get_remote_checksum",
    "Locker::get_pkg_manifest_checksum",
    "JsrPackageVersionInfoExt::get_checksum",
]
TRANSPARENT = ["source::LoaderChecksum::new", "source::LoaderChecksum::into_string"]

# Reviewed places where a literal `None` checksum may originate (function that
# contains the literal -> reason).  Anything else is a dropped checksum.
NONE_EXEMPT = {
    "graph::Builder::load_with_redirect_count": "queued URL item starts without checksum; load_pending_module looks it up in the lockfile (rule C05-b)",
    "jsr::JsrMetadataStore::queue_load_package_info": "package meta.json has no checksum by design (it changes with every publish)",
    "graph::Builder::probe_cached_jsr_version_manifests": "cache-only existence probe; response only inspected with matches!, never admitted (rule C05-a-probe)",
}

LOADER_CALLS = ["source::Loader::load", "source::Loader::ensure_cached"]


def is_none_ctor(l):
    return l.kind == "ctor" and (l.what or "").endswith("::None")


def run(F, R, tier):
    S = Slicer(F, sources=SOURCES, transparent=TRANSPARENT)

    # ---------------- C05-a ------------------------------------------------
    sites = [n for n in F.all_nodes() if n["k"] in ("Call", "MethodCall") and n.get("fn") in LOADER_CALLS]
    R.floor("C05-a loader call sites", len(sites), 9)
    n_lits = 0
    for c in sites:
        fnp = c["_top"]["path"]
        args = call_args(c)
        if len(args) < 3:
            R.violation("C05-a", "%s" % fnp, "loader call without options argument", where(c))
            continue
        opt_leaves = S.origins(args[2])
        lits = [l.node for l in opt_leaves if l.kind == "ctor" and l.what == "source::LoadOptions"]
        others = [l for l in opt_leaves if not (l.kind == "ctor" and l.what == "source::LoadOptions")]
        # the default `Loader::ensure_cached` forwards its own parameter: its
        # callers are followed by the slicer; a public-parameter leaf is the
        # trait's own API boundary.
        for l in others:
            if l.kind == "param" and l.what.startswith("source::Loader::ensure_cached"):
                continue
            R.violation("C05-a", "%s|options:%s" % (fnp, l.key()), "LoadOptions passed to %s is not a literal the analysis can see (%s)" % (c["fn"], l), where(c))
        for lit in lits:
            n_lits += 1
            fe = [f["e"] for f in lit["fields"] if f["name"] == "maybe_checksum"]
            if not fe:
                R.violation("C05-a", "%s|nofield" % fnp, "LoadOptions literal without maybe_checksum", where(lit))
                continue
            leaves = S.origins(fe[0])
            kinds = sorted({l.key() for l in leaves})
            ok = True
            for l in leaves:
                if l.kind == "src":
                    continue
                if is_none_ctor(l):
                    holder = l.node["_top"]["path"]
                    if holder in NONE_EXEMPT:
                        continue
                    ok = False
                    R.violation(
                        "C05-a", "%s<-None@%s" % (lit["_top"]["path"], holder),
                        "checksum reaching %s in %s may be the literal None written in %s (not a reviewed exemption): a known checksum would be dropped" % (c["fn"], fnp, holder),
                        where(l.node))
                    continue
                ok = False
                R.violation(
                    "C05-a", "%s<-%s" % (lit["_top"]["path"], l.key()),
                    "checksum reaching %s in %s has unrecognised provenance %s" % (c["fn"], fnp, l),
                    where(l.node) if l.node else where(c))
            if ok:
                R.ob("C05-a", "%s -> %s [%s]" % (fnp, c["fn"], expr_text(fe[0])), True, "origins: " + ", ".join(kinds))
                R.sample({"rule": "C05-a", "call": where(c), "maybe_checksum": expr_text(fe[0]), "origins": kinds})
    R.floor("C05-a LoadOptions literals reaching a loader call", n_lits, 7)

    # the probe exemption additionally requires the response to be consumed
    # only by `matches!`
    pb = F.body("graph::Builder::probe_cached_jsr_version_manifests")
    for c in [n for n in pb["_nodes"] if n.get("fn") in LOADER_CALLS]:
        # the call result is bound to a local; every use of that local must be
        # `<local>.await` as scrutinee of a matches! expansion
        p = c["_p"]
        ok = False
        detail = "probe result escapes"
        if p.get("k") == "LetStmt" and p["pat"].get("pk") == "bind":
            uses = [u for u in walk(pb["body"]) if u.get("k") == "Path" and u.get("lid") == p["pat"]["lid"]]
            ok = bool(uses)
            for u in uses:
                a = u["_p"]
                while a is not None and a.get("k") in ("Await", "AddrOf"):
                    a = a["_p"]
                if not (a is not None and a.get("k") == "Match" and "matches" in (a.get("mac") or [])):
                    ok = False
                    detail = "probe result used outside matches!: %s" % expr_text(a) if a else "?"
        R.ob("C05-a-probe", pb["path"], ok, detail if not ok else "response of the checksum-less cache probe is only inspected by matches!", where(c))

    # ---------------- C05-b ------------------------------------------------
    lp = F.body("graph::Builder::load_pending_module")

    def is_lock_assign(n):
        if n.get("k") != "Assign":
            return False
        l = peel(n["l"])
        if not (l.get("k") == "Path" and l.get("res") == "local"):
            return False
        return any(x.kind == "src" and x.what.endswith("get_remote_checksum") for x in S.origins(n["r"]))

    assigns = [n for n in lp["_nodes"] if is_lock_assign(n)]
    # equivalent spelling: `let checksum = checksum.or_else(|| locker.get_remote_checksum(..))`
    alt = [n for n in lp["_nodes"] if n.get("k") == "LetStmt" and "init" in n and peel(n["init"]).get("k") == "MethodCall" and peel(n["init"])["name"] in ("or_else", "or")
           and peel(peel(n["init"])["recv"]).get("res") == "local" and any(callee_matches(x, ["Locker::get_remote_checksum"]) for a_ in peel(n["init"])["args"] for x in walk(a_))
           and not any(a.get("k") == "Closure" for a in k_ancestors(n))]
    if not assigns and len(alt) == 1:
        lid_ = (pat_bindings(alt[0]["pat"]) or [{}])[0].get("lid")
        futs = [n for n in lp["_nodes"] if n.get("k") == "Closure" and n.get("ck", "").startswith("coroutine") and any(u.get("lid") == lid_ for u in walk(n) if u.get("k") == "Path" and u.get("res") == "local")]
        R.ob("C05-b", "a load future capturing the checksum exists", len(futs) >= 1, "no async block captures the checksum local", lp["file"])
        for fu in futs:
            R.ob("C05-b", "lockfile lookup dominates the load future (on the no-checksum path)", may_reach(F, alt[0], fu) and not any(a.get("k") in ("If", "Match") and is_within(a, lp["body"]["value"]) and not is_within(fu, a) for a in k_ancestors(alt[0])),
                 "the `or_else` lockfile lookup does not dominate the load future", where(fu))
        for x in walk(alt[0]["init"]):
            if callee_matches(x, ["Locker::get_remote_checksum"]):
                key = peel_value(x["args"][0])
                ins = [m for m in lp["_nodes"] if m.get("k") == "MethodCall" and m.get("fn") == "std::collections::BTreeMap::insert" and field_of(m["recv"]) == "module_slots"]
                same = any(peel_value(m["args"][0]).get("lid") == key.get("lid") for m in ins)
                R.ob("C05-b", "lockfile lookup keyed by the specifier whose slot is being loaded", same and key.get("res") == "local",
                     "get_remote_checksum is keyed by `%s`, not by the specifier inserted into module_slots" % expr_text(key), where(x))
    elif R.ob("C05-b", "lockfile lookup assignment exists in load_pending_module", len(assigns) >= 1, "no assignment `<checksum local> = ..get_remote_checksum(..)`", lp["file"]):
        lid = peel(assigns[0]["l"])["lid"]

        def hook(c):
            c = peel(c)
            # `<local>.is_none()` false  => checksum already known
            if c.get("k") == "MethodCall" and c.get("fn") == "std::option::Option::is_none":
                r = peel(c["recv"])
                if r.get("k") == "Path" and r.get("lid") == lid:
                    return (False, True)
            if c.get("k") == "MethodCall" and c.get("fn") == "std::option::Option::is_some":
                r = peel(c["recv"])
                if r.get("k") == "Path" and r.get("lid") == lid:
                    return (True, False)
            return None

        def is_future(n):
            # the async block that captures the checksum local
            if n.get("k") != "Closure" or not n.get("ck", "").startswith("coroutine"):
                return False
            return any(u.get("lid") == lid for u in walk(n) if u.get("k") == "Path" and u.get("res") == "local")

        fl = Flow(F, is_target=lambda n: n in assigns, probe=is_future, cond_hook=hook)
        fl.run(lp["body"]["value"], False)
        R.ob("C05-b", "a load future capturing the checksum exists", len(fl.probes) >= 1, "no async block captures the checksum local", lp["file"])
        for node, st in fl.probes:
            R.ob("C05-b", "lockfile lookup dominates the load future (on the no-checksum path)", st is True,
                 "some path reaches the load future with the checksum local possibly None and without `Locker::get_remote_checksum`", where(node))
        # the lookup key is the requested specifier that also keys the slot
        for a in assigns:
            for x in walk(a["r"]):
                if callee_matches(x, ["Locker::get_remote_checksum"]):
                    key = peel_value(x["args"][0])
                    ins = [m for m in lp["_nodes"] if m.get("k") == "MethodCall" and m.get("fn") == "std::collections::BTreeMap::insert" and field_of(m["recv"]) == "module_slots"]
                    same = any(peel_value(m["args"][0]).get("lid") == key.get("lid") for m in ins)
                    R.ob("C05-b", "lockfile lookup keyed by the specifier whose slot is being loaded", same and key.get("res") == "local",
                         "get_remote_checksum is keyed by `%s`, not by the specifier inserted into module_slots" % expr_text(key), where(x))

    # the manifest checksum of an https URL into the registry is derived for every kind of
    # load (module or asset): the package lookup that makes it possible is guarded only by
    # "the caller did not already know the version"
    lp_ = F.body("graph::Builder::load_pending_module")
    nv = [n for n in lp_["_nodes"] if n.get("k") == "MethodCall" and n["name"] == "package_url_to_nv" and not any(a.get("k") == "Closure" and a.get("ck", "").startswith("coroutine") for a in k_ancestors(n))]
    if R.ob("C05-b", "package lookup for plain https URLs found", len(nv) == 1, "load_pending_module no longer maps the requested URL to a registry package", lp_["file"]):
        conds = [x for x in guards_at(F, nv[0]) if x.kind == "cond" and not x.derived]
        ok = len(conds) == 1 and conds[0].pol and conds[0].node.get("fn") == "std::option::Option::is_none" and tyc(F, conds[0].node["recv"], "graph::JsrPackageVersionInfoExt")
        pats = [x for x in guards_at(F, nv[0]) if x.kind == "pat"]
        if not conds and pats and all(tyc(F, x.scrut, "graph::JsrPackageVersionInfoExt") for x in pats):
            ok = all((x.pol and pat_text(x.pat).startswith("std::option::Option::None")) or (not x.pol and pat_text(x.pat).startswith("std::option::Option::Some(")) for x in pats)
        R.ob("C05-b", "every load of a registry https URL (asset or module) gets its manifest checksum derived", ok,
             "the package lookup is additionally guarded by %s: for those loads try_load never derives the manifest checksum and the loader is called without it" % [x.text()[:40] for x in conds], where(nv[0]))

    # ---------------- C05-c ------------------------------------------------
    tl = F.body("try_load")
    lits = [n for n in tl["_nodes"] if n["k"] == "Struct" and n.get("adt") == "source::LoadOptions"]
    R.floor("C05-c LoadOptions literals in try_load", len(lits), 3)
    man = []
    for n in tl["_nodes"]:
        if n.get("k") == "Assign" and peel(n["l"]).get("res") == "local":
            if any(x.kind == "src" and x.what.endswith("get_checksum") and x.node["_top"] is tl for x in S.origins(n["r"])):
                man.append(n)
    if R.ob("C05-c", "manifest checksum assignment exists in try_load", len(man) >= 1, "no `maybe_checksum = Some(LoaderChecksum::new(info.get_checksum(..)))` in try_load", tl["file"]):
        m = man[0]
        mlid = peel(m["l"])["lid"]
        for lit in lits:
            fe = [f["e"] for f in lit["fields"] if f["name"] == "maybe_checksum"][0]
            pv = peel_value(fe)
            same = pv.get("k") == "Path" and pv.get("lid") == mlid
            R.ob("C05-c", "LoadOptions literal reads the local that receives the manifest checksum", same,
                 "LoadOptions.maybe_checksum = `%s` is not the local assigned from the version manifest" % expr_text(fe), where(lit))
            R.ob("C05-c", "manifest checksum assignment can reach the literal", may_reach(F, m, lit),
                 "LoadOptions literal is built before the manifest-derived checksum is assigned (https URL into the registry would load without checksum)", where(lit))
        # the assignment is keyed by the load specifier's sub path
        # and happens under the version-load future
        g = guards_at(F, m)
        R.ob("C05-c", "assignment happens when a version manifest was awaited", any(x.kind == "pat" and x.pol and tyc(F, x.scrut, "PendingJsrPackageVersionInfoLoadItem") for x in g),
             "manifest checksum assignment no longer under `if let Some(..) = maybe_version_load_fut`", where(m))

    # ---------------- C05-d ------------------------------------------------
    reload_lits = [n for n in lits if any(f["name"] == "cache_setting" and ctor_of(peel(f["e"])) == "source::CacheSetting::Reload" for f in n["fields"])]
    R.floor("C05-d Reload retries in try_load", len(reload_lits), 2)
    for lit in reload_lits:
        g = guards_at(F, lit)
        in_arm = any(x.kind == "pat" and x.pol and "ChecksumIntegrity" in pat_text(x.pat) for x in g)
        no_vi = any(x.kind == "cond" and x.pol and x.node.get("k") == "MethodCall" and x.node.get("fn") == "std::option::Option::is_none" and tyc(F, x.node["recv"], "graph::JsrPackageVersionInfoExt") for x in g)
        R.ob("C05-d", "Reload retry only in ChecksumIntegrity arm", in_arm, "cache-bypassing retry outside the `Err(LoadError::ChecksumIntegrity(_))` arm", where(lit))
        R.ob("C05-d", "Reload retry only for non-registry URLs", no_vi, "cache-bypassing retry not guarded by `maybe_version_info.is_none()`", where(lit))
    # any other Reload literal in graph.rs's loader paths?
    for n in F.all_nodes():
        if n["k"] == "Struct" and n.get("adt") == "source::LoadOptions" and n["_top"] is not tl:
            for f in n["fields"]:
                if f["name"] == "cache_setting" and ctor_of(peel(f["e"])) == "source::CacheSetting::Reload":
                    R.violation("C05-d", "Reload literal in %s" % n["_top"]["path"], "cache-bypassing load outside try_load's retry", where(n))
    tl_calls = [n for n in tl["_nodes"] if n.get("fn") in LOADER_CALLS]
    R.floor("C05-d loader calls in try_load", len(tl_calls), 4)
    for c in tl_calls:
        loops = [a for a in k_ancestors(c) if a["k"] in ("Loop", "While", "For")]
        R.ob("C05-d", "loader call not inside a loop [%s]" % expr_text(c)[:60], not loops, "loader call inside a loop: retries are unbounded", where(c))
    R.ob("C05-d", "try_load is not recursive", tl["path"] not in F.reachable_from(F.callgraph()[tl["path"]]), "try_load can call itself", tl["file"])
    # the ChecksumIntegrity arms end in an integrity error unless retry succeeded
    n_arms = 0
    for mt in [n for n in tl["_nodes"] if n["k"] == "Match"]:
        for arm in mt["arms"]:
            if "ChecksumIntegrity" not in pat_text(arm["pat"]):
                continue
            n_arms += 1
            vals = []
            _tail_values(F, arm["body"], vals)
            for r in walk(arm["body"], into_closures=False):
                if r["k"] == "Ret" and "e" in r:
                    _tail_values(F, r["e"], vals)
            for v in vals:
                gv = guards_at(F, v, stop_at=arm)
                retry_ok = any(x.kind == "pat" and x.pol and pat_text(x.pat).startswith("std::result::Result::Ok(") for x in gv)
                if retry_ok:
                    R.ob("C05-d", "success exit of the integrity arm is under `Ok(Some(..)) = retry result`", True, expr_text(v)[:80])
                    continue
                # must be Err(ModuleErrorKind::Load{err: integrity})
                ok = False
                if ctor_of(v) == "std::result::Result::Err":
                    st = [s for s in walk(v) if s["k"] == "Struct" and s.get("variant") == "graph::ModuleErrorKind::Load"]
                    if st:
                        errf = [f["e"] for f in st[0]["fields"] if f["name"] == "err"][0]
                        ev = []
                        _tail_values(F, errf, ev)
                        names = {ctor_of(x) for x in ev}
                        ok = names <= {"graph::ModuleLoadError::HttpsChecksumIntegrity", "graph::ModuleLoadError::Jsr"} and bool(names)
                        if "graph::ModuleLoadError::Jsr" in names:
                            ok = ok and any(ctor_of(peel(x["args"][0])) == "graph::JsrLoadError::ContentChecksumIntegrity" for x in ev if ctor_of(x) == "graph::ModuleLoadError::Jsr")
                R.ob("C05-d", "failure exit of the integrity arm is an integrity error", ok,
                     "the `ChecksumIntegrity` arm can complete with `%s`, which is neither a guarded retry success nor an integrity error: rejected content could be admitted or the failure mis-reported" % expr_text(v)[:100], where(v))
    R.floor("C05-d ChecksumIntegrity arms", n_arms, 2)

    # ---------------- C05-e ------------------------------------------------
    reds = [n for n in F.all_nodes() if ctor_of(n) == "graph::PendingInfoResponse::Redirect"]
    R.floor("C05-e constructions of PendingInfoResponse::Redirect", len(reds), 1)
    for r in reds:
        if r["_top"] is not tl:
            R.violation("C05-e", "Redirect constructed in %s" % r["_top"]["path"], "redirect response constructed outside try_load::handle_redirect (no checksum / in-package checks there)", where(r))
            continue
        g = guards_at(F, r)
        no_vi = any(x.kind == "cond" and x.pol and x.node.get("fn") == "std::option::Option::is_none" and tyc(F, x.node.get("recv"), "graph::JsrPackageVersionInfoExt") for x in g)
        no_ck = any(x.kind == "pat" and not x.pol and pat_text(x.pat).startswith("std::option::Option::Some(") and tyc(F, x.scrut, "source::LoaderChecksum") for x in g)
        R.ob("C05-e", "redirect only when the URL is not inside a registry package", no_vi, "Redirect response not dominated by `!maybe_version_info.is_some()`", where(r))
        R.ob("C05-e", "redirect only when no checksum is known", no_ck, "Redirect response not dominated by the failure of `let Some(_) = maybe_checksum`: a checksummed URL could redirect", where(r))
        # the closure's checksum parameter is fed the real checksum at every call
        clo = [a for a in k_ancestors(r) if a["k"] == "Closure"]
        if clo:
            clo = clo[0]
            let = clo["_p"]
            if let.get("k") == "LetStmt" and let["pat"].get("pk") == "bind":
                lid = let["pat"]["lid"]
                calls = [n for n in tl["_nodes"] if n["k"] == "Call" and "f" in n and peel(n["f"]).get("lid") == lid]
                R.floor("C05-e handle_redirect call sites", len(calls), 2)
                # which parameter is the checksum: the one matched by `let Some(_) = <param>`
                ck_param = None
                for x in g:
                    if x.kind == "pat" and not x.pol and tyc(F, x.scrut, "source::LoaderChecksum"):
                        sc = peel(x.scrut)
                        for i, pp in enumerate(clo["body"]["params"]):
                            if pp.get("lid") == sc.get("lid"):
                                ck_param = i
                lit_lids = {peel_value([f["e"] for f in l["fields"] if f["name"] == "maybe_checksum"][0]).get("lid") for l in lits}
                for c in calls:
                    if ck_param is None or ck_param >= len(c["args"]):
                        R.violation("C05-e", "handle_redirect checksum parameter", "cannot identify the checksum parameter of the redirect closure", where(c))
                        continue
                    a = peel_value(c["args"][ck_param])
                    R.ob("C05-e", "redirect check receives the checksum presented to the loader", a.get("k") == "Path" and a.get("lid") in lit_lids,
                         "handle_redirect is given `%s` instead of the checksum that was presented to the loader" % expr_text(c["args"][ck_param]), where(c))
    # every LoadResponse::Redirect / CacheResponse::Redirect arm maps to an error or to the guarded closure
    n_red_arms = 0
    for mt in [n for n in F.all_nodes() if n["k"] == "Match"]:
        for arm in mt["arms"]:
            pt = pat_text(arm["pat"])
            if "source::LoadResponse::Redirect" not in pt and "source::CacheResponse::Redirect" not in pt:
                continue
            if mt["_top"].get("derived") or mt["_top"]["path"].startswith("source::") or mt["_top"]["path"].startswith("<source::"):
                continue
            n_red_arms += 1
            body = arm["body"]
            vals = []
            _tail_values(F, body, vals)
            ok = False
            why = expr_text(body)
            ins = [x for x in walk(body) if x.get("k") == "MethodCall" and x.get("fn") == "std::collections::BTreeMap::insert"
                   and field_of(x["recv"]) == "module_slots" and any(ctor_of(y) == "graph::ModuleSlot::Err" for y in walk(x))]
            if ins and not any(ctor_of(y) == "graph::ModuleSlot::Module" for y in walk(body)):
                ok = True  # the specifier is settled as an error entry
            for v in vals:
                if ctor_of(v) == "std::result::Result::Err":
                    ok = True
                elif v.get("k") == "Call" and "f" in v and mt["_top"] is tl:
                    ok = True  # guarded closure, checked above
                else:
                    why = expr_text(v)
            R.ob("C05-e", "loader redirect arm in %s maps to an error or the guarded redirect handler" % mt["_top"]["path"], ok,
                 "a `Redirect` response is handled by `%s`" % why, where(body))
    R.floor("C05-e loader redirect arms", n_red_arms, 5)

    # ---------------- C05-f ------------------------------------------------
    vis = F.body("graph::Builder::visit")
    setr = [n for n in F.all_nodes() if callee_matches(n, ["source::Locker::set_remote_checksum"])]
    R.floor("C05-f set_remote_checksum call sites", len(setr), 1)
    for c in setr:
        if c["_top"] is not vis:
            R.violation("C05-f", "set_remote_checksum in %s" % c["_top"]["path"], "lockfile remote checksum written outside Builder::visit", where(c))
            continue
        g = guards_at(F, c)
        txt = [x.text() for x in g]
        key = peel_value(c["args"][0])

        def has(pred):
            return any(pred(x) for x in g)

        R.ob("C05-f", "new checksum only when the lockfile has none", has(lambda x: x.kind == "cond" and not x.pol and callee_matches(x.node, ["Locker::has_remote_checksum"]) and peel_value(x.node["args"][0]).get("lid") == key.get("lid")),
             "set_remote_checksum not dominated by `!locker.has_remote_checksum(<same specifier>)`: existing lockfile entries could be overwritten", where(c))
        R.ob("C05-f", "not for declaration files", has(lambda x: x.kind == "cond" and not x.pol and (x.node.get("fn") or "").endswith("MediaType::is_declaration")),
             "set_remote_checksum not dominated by `!media_type.is_declaration()`", where(c))
        R.ob("C05-f", "only remote schemes", has(lambda x: x.kind == "pat" and x.pol and (x.scrut.get("fn") or "").endswith("Url::scheme") and set(re.findall(r"'(\w+)'", pat_text(x.pat))) == {"https", "http"}),
             "set_remote_checksum not dominated by matches!(scheme, \"https\" | \"http\")", where(c))
        R.ob("C05-f", "not for registry package files", has(lambda x: x.kind == "cond" and x.pol and x.node.get("fn") == "std::option::Option::is_none" and tyc(F, x.node["recv"], "graph::JsrPackageVersionInfoExt")),
             "set_remote_checksum not dominated by `maybe_version_info.is_none()`", where(c))
        R.ob("C05-f", "not for modules whose content is loaded later", has(lambda x: x.kind == "pat" and not x.pol and any(tyc(F, y, "source::LoaderChecksum") and tyc(F, y, "analysis::ModuleInfo") for y in walk(x.scrut))),
             "set_remote_checksum reachable when pending_load is Some (bytes are a placeholder)", where(c))
        # argument shape: LoaderChecksum::new(LoaderChecksum::gen(X.source_bytes()))
        a = peel(c["args"][1])
        shape_ok = False
        srcvar = None
        if a.get("k") == "Call" and a.get("fn") == "source::LoaderChecksum::new":
            b = peel(a["args"][0])
            if b.get("k") == "Call" and b.get("fn") == "source::LoaderChecksum::gen":
                d = peel(b["args"][0])
                if d.get("k") == "MethodCall" and (d.get("fn") or "").endswith("ModuleSourceAndInfo::source_bytes"):
                    srcvar = peel(d["recv"])
                    shape_ok = srcvar.get("res") == "local"
        R.ob("C05-f", "recorded checksum is sha256 of the module's own bytes", shape_ok, "argument is `%s`, expected LoaderChecksum::new(LoaderChecksum::gen(<module>.source_bytes()))" % expr_text(c["args"][1]), where(c))
        if shape_ok:
            vm = [n for n in vis["_nodes"] if callee_matches(n, ["Builder::visit_module"])]
            same = any(peel(n["args"][0]).get("lid") == srcvar["lid"] for n in vm)
            R.ob("C05-f", "hashed bytes belong to the module that is stored", same, "the hashed value is not the module_source_and_info passed to visit_module", where(c))
            ins = [n for n in vis["_nodes"] if n.get("k") == "MethodCall" and n.get("fn") == "std::collections::BTreeMap::insert" and may_reach(F, c, n)]
            samek = any(peel_value(n["args"][0]).get("lid") == key.get("lid") for n in ins)
            R.ob("C05-f", "checksum recorded under the specifier the module is stored under", samek, "set_remote_checksum key differs from the module_slots key", where(c))
    setp = [n for n in F.all_nodes() if callee_matches(n, ["source::Locker::set_pkg_manifest_checksum"])]
    R.floor("C05-f set_pkg_manifest_checksum call sites", len(setp), 2)
    allowed = {"graph::Builder::resolve_pending", "graph::Builder::resolve_pending_jsr_specifiers"}
    for c in setp:
        fnp = c["_top"]["path"]
        R.ob("C05-f", "set_pkg_manifest_checksum caller %s" % fnp, fnp in allowed, "package manifest checksum written from an unexpected function", where(c))
        a = peel_value(c["args"][1])
        src_field = None
        if a.get("res") == "local":
            for d in local_defs(c["_top"], a["lid"]):
                if d[0] in ("letpat", "arm", "let") and d[1] is not None:
                    sc = peel_value(d[1])
                    if sc.get("k") == "Field":
                        src_field = (sc.get("adt"), sc["field"])
        R.ob("C05-f", "manifest checksum value is the load item's checksum_for_locker [%s]" % fnp,
             src_field in (("jsr::PendingJsrPackageVersionInfoLoadItem", "checksum_for_locker"), ("graph::LoadedJsrPackageViaHttpsUrl", "manifest_checksum_for_locker")),
             "value given to set_pkg_manifest_checksum is `%s` (from %s), not the checksum computed when the manifest was loaded" % (expr_text(c["args"][1]), src_field), where(c))
    fi = S.field_inits()
    inits_b = fi.get(("graph::LoadedJsrPackageViaHttpsUrl", "manifest_checksum_for_locker"), [])
    R.floor("C05-f inits of manifest_checksum_for_locker", len(inits_b), 1)
    for e in inits_b:
        pv = peel_value(e)
        R.ob("C05-f", "https-URL path forwards the load item's checksum_for_locker", pv.get("k") == "Field" and pv.get("field") == "checksum_for_locker" and pv.get("adt") == "jsr::PendingJsrPackageVersionInfoLoadItem",
             "manifest_checksum_for_locker initialised from `%s`" % expr_text(e), where(e))
    inits_a = fi.get(("jsr::PendingJsrPackageVersionInfoLoadItem", "checksum_for_locker"), [])
    R.floor("C05-f inits of checksum_for_locker", len([e for e in inits_a if not e["_top"].get("derived")]), 1)
    for e in inits_a:
        if e["_top"].get("derived"):
            continue
        R.ob("C05-f", "checksum_for_locker produced only while loading the manifest", e["_top"]["path"].startswith("jsr::JsrMetadataStore::queue_load_package_version_info"),
             "checksum_for_locker initialised in %s" % e["_top"]["path"], where(e))
    q = F.body("jsr::JsrMetadataStore::queue_load_package_version_info")
    thens = [n for n in q["_nodes"] if n.get("k") == "MethodCall" and n.get("fn") == "core::bool::then"]
    found = False
    for t in thens:
        st = t
        while st is not None and st.get("k") != "LetStmt":
            st = st.get("_p")
        if not (st and tyc(F, st["pat"], "Option<source::LoaderChecksum>")):
            continue
        found = True
        flag = peel(t["recv"])
        conds = []
        if flag.get("res") == "local":
            for d in local_defs(q, flag["lid"]):
                if d[0] == "let":
                    split_cond(d[1], True, conds)
        has_none = False
        for x in conds:
            if x.kind == "cond" and x.pol and x.node.get("fn") == "std::option::Option::is_none":
                if any(l.kind == "src" and l.what.endswith("get_pkg_manifest_checksum") for l in S.origins(x.node["recv"])):
                    has_none = True
        R.ob("C05-f", "manifest checksum only computed when the lockfile has none", has_none,
             "checksum_for_locker is computed without `lockfile-lookup.is_none()`: an existing lockfile entry would be overwritten", where(t))
        clo = peel(t["args"][0])
        val = peel(clo["body"]["value"]) if clo.get("k") == "Closure" else {}
        ok = False
        if val.get("fn") == "source::LoaderChecksum::new":
            inner = peel(val["args"][0])
            if inner.get("fn") == "std::option::Option::unwrap_or_else":
                rc = peel_value(inner["recv"])
                alt = peel(inner["args"][0])
                g = [x for x in walk(alt) if x.get("fn") == "source::LoaderChecksum::gen"]
                if rc.get("field") == "lockfile_checksum" and g:
                    hashed = peel(g[0]["args"][0])
                    parsed = [x for x in walk(q["body"]) if (x.get("fn") or "").startswith("serde_json::from_slice")]
                    ok = any(peel(p["args"][0]).get("lid") == hashed.get("lid") for p in parsed)
        R.ob("C05-f", "manifest checksum = manifest's own lockfile checksum or sha256 of the parsed bytes", ok,
             "checksum_for_locker is `%s`" % expr_text(val), where(t))
    R.ob("C05-f", "checksum_for_locker computation found", found, "`let checksum_for_locker = <flag>.then(..)` not found", q["file"])

    # ---------------- C05-g ------------------------------------------------
    gen = F.body("source::LoaderChecksum::gen")
    types_ = {F.ty(n) or "" for n in gen["_nodes"]}
    upd = [n for n in gen["_nodes"] if n.get("k") == "MethodCall" and n["name"] == "update"]
    ok = any("Sha256" in t or "CoreWrapper<sha2" in t for t in types_) and len(upd) == 1 and peel_value(upd[0]["args"][0]).get("lid") == gen["body"]["params"][0].get("lid") and any(n.get("k") == "MethodCall" and n["name"] == "finalize" for n in gen["_nodes"])
    R.ob("C05-g", "a checksum is the SHA-256 of exactly the given bytes", ok, "LoaderChecksum::gen no longer hashes its argument with Sha256 (update(source) + finalize)", gen["file"])
    cs = F.body("source::LoaderChecksum::check_source")
    g_ = [n for n in cs["_nodes"] if callee_matches(n, ["source::LoaderChecksum::gen"])]
    cmpn = [n for n in cs["_nodes"] if n.get("k") == "Binary" and n["op"] in ("==", "!=")]
    vals = return_values(F, cs)
    oks = [v for v in vals if ctor_of(v) == "std::result::Result::Ok"]
    errs = [v for v in vals if ctor_of(v) == "std::result::Result::Err"]
    ok = len(g_) == 1 and peel_value(g_[0]["args"][0]).get("lid") == cs["body"]["params"][1].get("lid") and len(cmpn) == 1 and len(oks) == 1 and len(errs) == 1
    if ok:
        gg = guards_at(F, oks[0])
        ok = any(x.kind == "cond" and x.holds(cmpn[0]) == (cmpn[0]["op"] == "==") for x in gg)
        sides = [peel_value(cmpn[0]["l"]), peel_value(cmpn[0]["r"])]
        ok = ok and any(any(y is g_[0] or is_within(g_[0], y) for y in through_locals(sd)) for sd in sides) and any(sd.get("k") == "Field" and sd["field"] == "0" for sd in sides)
    R.ob("C05-g", "check_source accepts exactly when the stored checksum equals the hash of the given bytes", ok, "check_source no longer compares self.0 with gen(source) / Ok and Err edges changed", cs["file"])

    R.analysed.update({"loader_call_sites": len(sites), "load_options_literals": n_lits, "functions_sliced_through": sorted(S.visited_fns)})


from .lib import _tail_values  # noqa: E402
