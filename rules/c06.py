"""C06 — JSR requirements resolve to the specified version.

The maximisation itself (arithmetic over version sets) is NOT decided here.
Decides:
  a. tier structure of JsrPackageVersionResolver::resolve_version: four calls
     of packages::resolve_version, totally ordered (existing -> cached ->
     unyanked -> yanked); the first receives no date cutoff and no version
     info, the other three `self.newest_dependency_date`; the yanked flag of
     the result is false after the cached/unyanked tiers, true after the yanked
     tier, looked up for tier 1; each tier's candidate filter tests the yanked
     flag with the right polarity.
  b. the fold in packages::resolve_version applies the requirement and the date
     filter before a candidate can become best, and the date exemption for
     entries without info.
  c. Builder::resolve_jsr_nv: a yanked pick is reported, every success records
     the selection; already-selected versions are the ones offered as tier 1;
     `jsr_unification_decides` agrees with tier 1 (requirement match per version).
  d. version tags are rejected.
  e. not-found carries the date only when a date excluded a match.
  f. lockfile seeds selections; NewestDependencyDateOptions exclusions.
"""
from .lib import *
from .lib import _tail_values

EXPLANATION = (
    "Ordering and argument provenance of the four selection tiers (T5/T4), guard dominance inside the maximum fold (T5), "
    "must-pass-through of yanked reporting and selection recording (T2), sibling agreement between the builder's unification "
    "predicate and tier 1 (T12), arm table of validate_jsr_specifier (T8)."
)
EXPLANATION += " " + 'Plus: defaults of the yanked flag, state machine of the excluded-by-date flag, recording and listing of used yanked packages, probe not skipped for packages already probed for another requirement.'
NOT_DECIDED = "that the highest satisfying version is selected (arithmetic), yanked/date filtering semantics as data, cached-manifest preference outcomes"
CONFIGS = ["default", "nofastcheck"]  # thorough tier also analyses the build without fast_check / symbols
ASSUMPTIONS = ["VersionReq::matches and Version ordering (deno_semver) are correct"]


def run(F, R, tier):
    rv = F.body("packages::JsrPackageVersionResolver::resolve_version")
    calls = [n for n in rv["_nodes"] if n.get("k") == "Call" and n.get("fn") == "packages::resolve_version"]
    calls.sort(key=lambda n: n["id"])
    if not R.ob("C06-a", "four selection tiers", len(calls) == 4, "resolve_version has %d tiers, expected 4 (existing, cached, unyanked, yanked)" % len(calls), rv["file"]):
        return
    for i in range(3):
        R.ob("C06-a", "tier %d is tried before tier %d" % (i + 1, i + 2), may_reach(F, calls[i], calls[i + 1]) and not may_reach(F, calls[i + 1], calls[i]), "tier order changed", where(calls[i]))
    names = ["existing", "cached", "unyanked", "yanked"]
    for i, c in enumerate(calls):
        opt = peel(c["args"][0])
        f = {x["name"]: peel(x["e"]) for x in opt["fields"]} if opt.get("k") == "Struct" else {}
        if not R.ob("C06-a", "tier %s passes literal options" % names[i], "newest_dependency_date" in f, "options of tier %s are not a ResolveVersionOptions literal (`%s`): cannot see which date cutoff applies" % (names[i], expr_text(c["args"][0])[:60]), where(c)):
            continue
        d = f["newest_dependency_date"]
        if i == 0:
            R.ob("C06-a", "tier existing ignores the date cutoff", ctor_of(d) == "std::option::Option::None",
                 "already-selected versions are filtered by the newest-dependency date (`%s`): a lockfile-seeded selection newer than the cutoff would be abandoned" % expr_text(d), where(c))
        else:
            pv = peel_value(d)
            R.ob("C06-a", "tier %s applies the configured date cutoff" % names[i], pv.get("k") == "Field" and pv["field"] == "newest_dependency_date" and expr_text(pv["e"]) == "self",
                 "tier %s passes `%s` as the date cutoff" % (names[i], expr_text(d)), where(c))
        rq = peel_value(f.get("version_req", {}))
        R.ob("C06-a", "tier %s matches against the requirement" % names[i], rq.get("k") == "Field" and rq["field"] == "version_req" and "package_req" in expr_text(rq["e"]), "version_req = %s" % expr_text(f.get("version_req", {})), where(c))
    # candidates
    S = Slicer(F)
    def cand_closure(c):
        a = peel_value(c["args"][1])
        if a.get("res") == "local":
            for d in local_defs(rv, a["lid"]):
                if d[0] == "let":
                    a = peel_value(d[1])
        return a
    c0 = cand_closure(calls[0])
    ok = c0.get("k") == "MethodCall" and c0["name"] == "map" and "existing_versions" in expr_text(c0["recv"])
    if ok:
        clo = peel(c0["args"][0])
        v = peel(clo["body"]["value"])
        ok = v.get("k") == "Tup" and ctor_of(peel(v["args"][1])) == "std::option::Option::None"
    R.ob("C06-a", "tier existing offers exactly the already-selected versions, without version info", ok,
         "tier 1 candidates are `%s`: attaching version info makes the date cutoff apply to already-selected versions" % expr_text(c0)[:90], where(calls[0]))
    pol = {1: (False, True), 2: (False, False), 3: (True, False)}
    for i in (1, 2, 3):
        ci = cand_closure(calls[i])
        ok = ci.get("k") == "MethodCall" and ci["name"] == "filter_map" and "versions" in expr_text(ci["recv"])
        yk = None
        cached = False
        if not ok and ci.get("k") == "MethodCall" and ci["name"] == "map" and peel(ci["recv"]).get("k") == "MethodCall" and peel(ci["recv"])["name"] == "filter" and "versions" in expr_text(peel(ci["recv"])["recv"]):
            # `.filter(|(_, info)| info.yanked == <bool>).map(..)`: the bool may be a parameter of an extracted helper bound to a literal
            fc = peel(peel(ci["recv"])["args"][0])
            fv = peel(fc["body"]["value"]) if fc.get("k") == "Closure" else {}
            if fv.get("k") == "Binary" and fv["op"] == "==":
                for a_, b_ in ((fv["l"], fv["r"]), (fv["r"], fv["l"])):
                    if peel_value(a_).get("k") == "Field" and peel_value(a_)["field"] == "yanked":
                        lits = [peel(y).get("v") for y in through_locals(b_) if peel(y).get("k") == "Lit"]
                        if lits and isinstance(lits[-1], bool):
                            yk = lits[-1]
                            ok = True
            elif fv.get("k") == "Field" and fv["field"] == "yanked":
                yk, ok = True, True
            elif fv.get("k") == "Unary" and fv["op"] == "!" and peel(fv["e"]).get("field") == "yanked":
                yk, ok = False, True
        elif ok:
            clo = peel(ci["args"][0])
            ifs = [n for n in walk(clo) if n["k"] == "If"]
            if ifs:
                conds = []
                split_cond(ifs[0]["cond"], True, conds)
                for x in conds:
                    if x.kind == "cond" and x.node.get("k") == "Field" and x.node["field"] == "yanked":
                        yk = x.pol
                    if x.kind == "cond" and x.pol and x.node.get("k") == "MethodCall" and x.node["name"] == "contains" and "cached_versions" in expr_text(x.node["recv"]):
                        cached = True
        want_yanked, want_cached = pol[i]
        R.ob("C06-a", "tier %s filters on yanked == %s%s" % (names[i], want_yanked, " and cached" if want_cached else ""), ok and yk == want_yanked and cached == want_cached,
             "tier %s candidate filter is `%s`" % (names[i], expr_text(ci)[:80]), where(calls[i]))
    # results
    rets = [n for n in rv["_nodes"] if n["k"] == "Ret"]
    for r in rets:
        st = [s for s in walk(r) if s["k"] == "Struct" and (s.get("adt") or "").endswith("JsrVersionResolverResolvedVersion")]
        if not st:
            continue
        # which tier: the latest tier call that may reach this return
        t = max([i for i, c in enumerate(calls) if may_reach(F, c, r)] or [-1])
        yv = peel([f["e"] for f in st[0]["fields"] if f["name"] == "is_yanked"][0])
        if t == 0:
            leaves = S.origins(yv)
            ok = yv.get("res") == "local" and any(any(x.get("k") == "Field" and x["field"] == "yanked" for x in walk(d[1])) and any(x.get("k") == "Field" and x["field"] == "versions" for x in walk(d[1])) for d in local_defs(rv, yv["lid"]) if d[0] == "let")
            R.ob("C06-a", "tier existing reports the registry's yanked flag of the pick", ok, "is_yanked = %s" % expr_text(yv), where(r))
            dflt = [x for d in local_defs(rv, yv["lid"]) if d[0] == "let" for x in walk(d[1]) if x.get("k") == "MethodCall" and x["name"] == "unwrap_or"] if yv.get("res") == "local" else []
            R.ob("C06-a", "a selected version the registry does not list is not reported as yanked", len(dflt) == 1 and peel(dflt[0]["args"][0]).get("v") is False, "default of the yanked flag is `%s`" % (expr_text(dflt[0]["args"][0]) if dflt else "?"), where(r))
        elif t in (1, 2):
            R.ob("C06-a", "tier %s result is not yanked" % names[t], yv.get("v") is False, "is_yanked = %s" % expr_text(yv), where(r))
        elif t == 3:
            R.ob("C06-a", "tier yanked result is flagged yanked", yv.get("v") is True, "the yanked fallback returns is_yanked = %s: it would not be reported as a used yanked package" % expr_text(yv), where(r))
    # cached tier only when there are cached versions
    g = guards_at(F, calls[1])
    R.ob("C06-a", "cached tier is skipped when nothing is cached", any(x.kind == "cond" and not x.pol and x.node.get("name") == "is_empty" and "cached_versions" in expr_text(x.node) for x in g), "guard changed", where(calls[1]))

    # ---------------- C06-b ------------------------------------------------
    fold = F.body("packages::resolve_version")
    asg = [n for n in fold["_nodes"] if n["k"] == "Assign" and peel(n["l"]).get("res") == "local" and tyc(F, n["l"], "Option<&deno_semver::Version>")]
    R.floor("C06-b best-version updates", len(asg), 1)
    for a in asg:
        g = guards_at(F, a)
        R.ob("C06-b", "a candidate must satisfy the requirement", any(x.kind == "cond" and x.pol and (x.node.get("fn") or "").endswith("VersionReq::matches") for x in g), "best-version update not guarded by version_req.matches(version)", where(a))
        R.ob("C06-b", "a candidate must pass the date filter", any(x.kind == "cond" and x.pol and callee_matches(x.node, ["packages::matches_newest_dependency_date"]) for x in g), "best-version update not guarded by matches_newest_dependency_date", where(a))
        R.ob("C06-b", "the assigned version is the candidate under test", (peel_value(peel(a["r"])["args"][0]).get("lid") in {b_["lid"] for lp_ in fold["_nodes"] if lp_["k"] == "For" for b_ in pat_bindings(lp_["pat"])}) if ctor_of(peel(a["r"])) == "std::option::Option::Some" else False, "assigned %s" % expr_text(a["r"]), where(a))
    md = F.body("packages::matches_newest_dependency_date")
    vals = return_values(F, md)
    ok = len(vals) == 1 and vals[0].get("k") == "MethodCall" and vals[0]["name"] == "unwrap_or" and peel(vals[0]["args"][0]).get("v") is True
    if not ok and len(vals) >= 2:
        # explicit form: the real date test where both are present, literal `true` everywhere else
        tests = [v for v in vals if callee_matches(v, ["matches_newest_dependency_date"]) or (v.get("k") == "MethodCall" and v["name"] == "matches_newest_dependency_date")]
        rest = [v for v in vals if v not in tests]
        ok = len(tests) >= 1 and bool(rest) and all(peel(v).get("v") is True for v in rest)
    R.ob("C06-b", "entries without version info or without a cutoff pass the date filter", ok, "matches_newest_dependency_date default changed: `%s`" % (expr_text(vals[0]) if vals else "?"), md["file"])

    # ---------------- C06-c ------------------------------------------------
    nv = F.body("graph::Builder::resolve_jsr_nv")
    is_add = lambda n: callee_matches(n, ["PackageSpecifiers::add_nv"])
    fl = Flow(F, is_add)
    fl.run(nv["body"]["value"], False)
    bad = [n_ for k_, n_, st in fl.exits if st is False and k_ in ("return", "fallthrough")]
    R.ob("C06-c", "every successful resolution records the selection (add_nv)", not bad, "a success path of resolve_jsr_nv does not call packages.add_nv: later requirements would not unify with it", where(bad[0]) if bad else "")
    ay = F.body("packages::PackageSpecifiers::add_used_yanked_package")
    ins_y = [n for n in ay["_nodes"] if n.get("k") == "MethodCall" and n["name"] == "insert" and field_of(n["recv"]) == "used_yanked_packages" and peel_value(n["args"][0]).get("lid") == ay["body"]["params"][1].get("lid")]
    bad_y, _ = must_pass(F, ay["body"]["value"], lambda n: n in ins_y)
    R.ob("C06-c", "a reported yanked use is recorded", len(ins_y) == 1 and not bad_y, "add_used_yanked_package does not insert its argument into used_yanked_packages on every path", ay["file"])
    uy = F.body("packages::PackageSpecifiers::used_yanked_packages")
    R.ob("C06-c", "used_yanked_packages() lists what was recorded", any(n.get("k") == "Field" and n["field"] == "used_yanked_packages" for n in uy["_nodes"]) and not any(n.get("k") == "MethodCall" and n["name"] in ("filter", "skip", "take", "filter_map", "skip_while", "take_while", "step_by") for n in uy["_nodes"]), "accessor no longer returns the whole set", uy["file"])
    yk = [n for n in nv["_nodes"] if callee_matches(n, ["PackageSpecifiers::add_used_yanked_package"])]
    if R.ob("C06-c", "yanked use is reported", len(yk) == 1, "add_used_yanked_package not called in resolve_jsr_nv", nv["file"]):
        g = guards_at(F, yk[0])
        R.ob("C06-c", "reported exactly when the pick is yanked", any(x.kind == "cond" and x.pol and x.node.get("k") == "Field" and x.node["field"] == "is_yanked" for x in g) and len([x for x in g if x.kind == "cond" and not x.derived]) == 1, "guards: %s" % [x.text() for x in g], where(yk[0]))
    rc = [n for n in nv["_nodes"] if callee_matches(n, ["JsrPackageVersionResolver::resolve_version"])]
    if R.ob("C06-c", "resolve_jsr_nv calls the tiered resolver", len(rc) == 1, "shape changed", nv["file"]):
        ex = rc[0]["args"][1]
        R.ob("C06-c", "already-selected versions of this package are offered as tier 1", any(callee_matches(x, ["PackageSpecifiers::versions_by_name"]) for x in walk(ex)) and "package_req.name" in expr_text(ex),
             "existing versions argument is `%s`" % expr_text(ex)[:80], where(rc[0]))
        R.ob("C06-c", "a resolution failure is propagated", rc[0]["_p"].get("k") == "Try", "error of resolve_version not propagated with `?`", where(rc[0]))
    ud = F.body("graph::Builder::jsr_unification_decides")
    m = [n for n in ud["_nodes"] if (n.get("fn") or "").endswith("VersionReq::matches")]
    ok = len(m) == 1 and any(callee_matches(x, ["PackageSpecifiers::versions_by_name"]) for x in ud["_nodes"]) and any(x.get("k") == "MethodCall" and x["name"] == "any" for x in ud["_nodes"])
    if ok:
        a = peel_value(m[0]["args"][0])
        ok = a.get("k") == "Field" and a["field"] == "version"
    R.ob("C06-c", "unification predicate agrees with tier 1: some already-selected version satisfies the requirement", ok,
         "jsr_unification_decides no longer tests `version_req.matches(&nv.version)` over the selected versions of the package: the cached-manifest probe is skipped although tier 1 will not decide", ud["file"])
    rs = F.body("graph::Builder::resolve_pending_jsr_specifiers")
    pr = [n for n in rs["_nodes"] if callee_matches(n, ["Builder::probe_cached_jsr_version_manifests"])]
    if R.ob("C06-c", "probe call found", len(pr) == 1, "shape changed", rs["file"]):
        g = guards_at(F, pr[0])
        conds = [x for x in g if x.kind == "cond"]
        ok = any(not x.pol and x.node.get("k") == "Binary" and x.node["op"] == "||" and "prefer_cached_jsr_versions" in expr_text(x.node) and "jsr_unification_decides" in expr_text(x.node) for x in conds) or \
            (any(x.pol and "prefer_cached_jsr_versions" in expr_text(x.node) for x in conds) and any(not x.pol and "jsr_unification_decides" in expr_text(x.node) for x in conds))
        R.ob("C06-c", "cached manifests are probed whenever the mode is on and unification does not decide", ok, "guards: %s" % [x.text()[:70] for x in g], where(pr[0]))

    # ---------------- C06-d ------------------------------------------------
    vj = F.body("graph::validate_jsr_specifier")
    # every value the function can return: under a `Tag(..)` match it is the
    # VersionTagNotSupported error; an Ok is only returned where Tag is excluded
    vals = return_values(F, vj)
    n_tag = 0
    for v in vals:
        if v.get("k") == "TryExit":
            continue
        g = guards_at(F, v)
        tag_pos = any(x.kind == "pat" and x.pol and "RangeSetOrTag::Tag" in pat_text(x.pat) for x in g)
        tag_neg = any(x.kind == "pat" and ((not x.pol and "RangeSetOrTag::Tag" in pat_text(x.pat)) or (x.pol and "RangeSetOrTag::RangeSet" in pat_text(x.pat))) for x in g)
        if tag_pos:
            n_tag += 1
            ok = ctor_of(v) == "std::result::Result::Err" and any(ctor_of(y) == "graph::JsrPackageFormatError::VersionTagNotSupported" for y in walk(v))
            R.ob("C06-d", "version tags are rejected", ok, "under a Tag requirement validate_jsr_specifier yields %s" % expr_text(v)[:40], where(v))
        elif ctor_of(v) == "std::result::Result::Ok":
            R.ob("C06-d", "a jsr specifier is accepted only where a version tag is excluded", tag_neg, "validate_jsr_specifier returns Ok without having excluded `RangeSetOrTag::Tag`", where(v))
    R.ob("C06-d", "validate_jsr_specifier matches on the requirement kind", n_tag >= 1, "no return value under a `RangeSetOrTag::Tag` match", vj["file"])
    lk = F.body("graph::Builder::parse_load_specifier_kind")
    R.ob("C06-d", "every jsr: specifier is validated before it is loaded", any(callee_matches(n, ["graph::validate_jsr_specifier"]) for n in lk["_nodes"]), "parse_load_specifier_kind no longer calls validate_jsr_specifier", lk["file"])

    # ---------------- C06-e ------------------------------------------------
    errs = [n for n in rv["_nodes"] if n["k"] == "Struct" and (n.get("adt") or "").endswith("JsrPackageReqNotFoundError")]
    if R.ob("C06-e", "not-found error constructed", len(errs) == 1, "shape changed", rv["file"]):
        d = peel([f["e"] for f in errs[0]["fields"] if f["name"] == "newest_dependency_date"][0])
        flag = None
        if d.get("k") == "MethodCall" and d["name"] == "flatten":
            t = peel(d["recv"])
            if t.get("k") == "MethodCall" and t["name"] == "then_some":
                flag = peel(t["recv"])
                dd = peel_value(t["args"][0])
                R.ob("C06-e", "the reported date is the configured cutoff", dd.get("field") == "newest_dependency_date", "date = %s" % expr_text(t["args"][0]), where(errs[0]))
        if R.ob("C06-e", "date reported only when a flag says a newer match was excluded", flag is not None and flag.get("res") == "local", "newest_dependency_date = %s" % expr_text(d), where(errs[0])):
            ors = [n for n in rv["_nodes"] if n["k"] == "AssignOp" and n["op"] == "|=" and peel(n["l"]).get("lid") == flag["lid"]]
            R.ob("C06-e", "the flag accumulates both registry tiers", len(ors) == 2 and all("had_higher_date_version" in expr_text(o["r"]) for o in ors), "flag updated at %d site(s)" % len(ors), where(errs[0]))
    # the "a newer match was excluded by date" flag of the maximum search: false unless some
    # version satisfies the requirement, and only reported when none passed the date filter
    rvf = F.body("packages::resolve_version")
    nn = [n for n in rvf["_nodes"] if n["k"] == "Struct" and (n.get("variant") or "").endswith("ResolveVersionResult::None")]
    if R.ob("C06-e", "the maximum search reports why nothing was found", len(nn) == 1, "shape changed", rvf["file"]):
        fv = peel_value(nn[0]["fields"][0]["e"])
        ok = False
        why = "flag is `%s`" % expr_text(fv)
        if fv.get("res") == "local":
            defs = local_defs(rvf, fv["lid"])
            init_false = [d for d in defs if d[0] == "let" and d[1] is not None and peel(d[1]).get("v") is False]
            sets = [n for n in rvf["_nodes"] if n["k"] == "Assign" and peel(n["l"]).get("lid") == fv["lid"]]
            sets_ok = bool(sets)
            for a_ in sets:
                g = guards_at(F, a_)
                m_ = [x for x in g if x.kind == "cond" and x.pol and x.node.get("k") == "MethodCall" and x.node["name"] == "matches" and tyc(F, x.node["recv"], "VersionReq")]
                dt = [x for x in g if x.kind == "cond" and mentions_call(x.node, ["matches_newest_dependency_date"])]
                sets_ok = sets_ok and peel(a_["r"]).get("v") is True and bool(m_) and not dt
            ok = len(init_false) == 1 and sets_ok
            why = "init false: %s; set exactly for versions matching the requirement: %s" % (bool(init_false), sets_ok)
        R.ob("C06-e", "`excluded by date` is claimed only if some version satisfied the requirement", ok,
             "had_higher_date_version %s: a not-found error would blame the newest-dependency date although no version matched the requirement at all (or would not mention it when one did)" % why, where(nn[0]))
    # ---------------- C06-f ------------------------------------------------
    fl_ = F.body("graph::ModuleGraph::fill_from_lockfile")
    adds = [n for n in fl_["_nodes"] if callee_matches(n, ["PackageSpecifiers::add_nv"])]
    if R.ob("C06-f", "lockfile package loop found", len(adds) >= 1, "fill_from_lockfile no longer calls add_nv", fl_["file"]):
        for n in adds:
            g = guards_at(F, n)
            R.ob("C06-f", "lockfile jsr entries seed the selections", any(x.kind == "pat" and x.pol and "PackageKind::Jsr" in pat_text(x.pat) for x in g) or any(x.kind == "cond" and x.pol and "PackageKind::Jsr" in expr_text(x.node) for x in g),
                 "add_nv is not under a `PackageKind::Jsr` test", where(n))
    gp = F.body("packages::NewestDependencyDateOptions::get_for_package")
    vals = return_values(F, gp)
    nones = [v for v in vals if ctor_of(v) == "std::option::Option::None"]
    somes = [v for v in vals if ctor_of(v) == "std::option::Option::Some"]
    ok = len(nones) == 1 and len(somes) == 1
    if ok:
        g = guards_at(F, nones[0])
        ok = any(x.kind == "cond" and x.pol and "exclude_jsr_pkgs" in expr_text(x.node) and "exclude_jsr_pkg_prefixes" in expr_text(x.node) for x in g)
    R.ob("C06-f", "excluded packages get no date cutoff, all others the configured date", ok, "get_for_package shape changed", gp["file"])
    exact = [n for n in gp["_nodes"] if n.get("k") == "MethodCall" and n["name"] == "contains" and field_of(n["recv"]) == "exclude_jsr_pkgs"]
    pre = [n for n in gp["_nodes"] if n.get("k") == "MethodCall" and n["name"] == "starts_with"]
    pre_ok = bool(pre) and all(any(a_.get("k") == "MethodCall" and mentions_field(a_, "exclude_jsr_pkg_prefixes") and not mentions_field(a_, "exclude_jsr_pkgs") for a_ in k_ancestors(p_)) for p_ in pre)
    R.ob("C06-f", "exact exclusions match the whole package name; only the prefix list is matched by prefix", len(exact) == 1 and pre_ok,
         "the exact exclusion list is no longer tested with `contains(package_name)` (or is also matched by prefix): excluding `@scope/b` would also exempt `@scope/bar` from the date rule", gp["file"])
    pb = F.body("graph::Builder::probe_cached_jsr_version_manifests")
    rets_ = [n for n in pb["_nodes"] if n["k"] == "Ret" and not any(a_.get("k") == "Closure" and not is_async_fn_closure(a_) for a_ in k_ancestors(n))]
    R.floor("C06-c early returns of the cached-manifest probe", len(rets_), 1)
    for r_ in rets_:
        g = guards_at(F, r_)
        ok = any(x.kind == "cond" and x.pol and x.node.get("k") == "MethodCall" and x.node["name"] == "is_empty" and tyc(F, x.node["recv"], "Vec<(deno_semver::Version") for x in g)
        R.ob("C06-c", "the cached-manifest probe is skipped only when this requirement has no unprobed candidate", ok,
             "probe_cached_jsr_version_manifests returns early on another condition: a second requirement on the same package would see only the first requirement's cached set", where(r_))
