"""C20 — module text and original bytes are faithful to what the loader supplied.

Decides:
  a. text and decode kind travel together: ModuleTextSource is only constructed
     in new_source_with_text (both fields from the same decode result) and
     new_unknown (kind Changed); no field-wise write to .text / .decoded_kind.
  b. byte recovery table of try_get_original_bytes: no catch-all; Changed ->
     None; OnlyUtf8Bom -> exactly EF BB BF followed by the text bytes;
     Unchanged is the only arm with unsafe code.
  c. the only reinterpreting cast is *const str -> *const [u8] between
     Arc::into_raw(clone) and Arc::from_raw; no other unsafe in graph.rs.
  d. charset precedence: explicit charset, else detect_charset(specifier,
     bytes); decode failure becomes ModuleLoadError::Decode.
  e. reported sizes read the stored text / bytes length.
"""
from .lib import *
from .lib import _tail_values

EXPLANATION = "Who-may-construct and field provenance for ModuleTextSource (T3/T4), arm table and literal bytes of try_get_original_bytes (T8/T14), inventory of unsafe blocks and transmutes in graph.rs (cast inspection), provenance of the charset argument (T4)."
EXPLANATION += " " + 'Plus: the header helper hands the content-type charset on for every media type.'
NOT_DECIDED = "correctness of decoding / BOM stripping inside deno_media_type"
CONFIGS = ["default", "nofastcheck"]  # thorough tier also analyses the build without fast_check / symbols
ASSUMPTIONS = ["Arc<str> and Arc<[u8]> share layout (std guarantee used by the existing code)", "deno_media_type::encoding decodes correctly and reports the decode kind truthfully"]


def run(F, R, tier):
    # ---------------- C20-a ------------------------------------------------
    lits = [n for n in F.all_nodes() if n["k"] == "Struct" and n.get("adt") == "graph::ModuleTextSource" and not n["_top"].get("derived")]
    R.floor("C20-a constructions of ModuleTextSource", len(lits), 2)
    for l in lits:
        fn = l["_top"]["path"]
        f = {x["name"]: peel_value(x["e"]) for x in l["fields"]}
        if fn == "graph::new_source_with_text":
            t, k = f["text"], f["decoded_kind"]
            ok = t.get("k") == "Field" and k.get("k") == "Field" and t["field"] == "text" and k["field"] == "kind" and peel_value(t["e"]).get("lid") == peel_value(k["e"]).get("lid") and peel_value(t["e"]).get("lid") is not None
            R.ob("C20-a", "text and decode kind come from the same decode result", ok, "ModuleTextSource{text: %s, decoded_kind: %s}" % (expr_text(f["text"]), expr_text(f["decoded_kind"])), where(l))
        elif fn == "graph::ModuleTextSource::new_unknown":
            R.ob("C20-a", "text of unknown origin is marked Changed", ctor_of(f["decoded_kind"]) == "deno_media_type::encoding::DecodedArcSourceDetailKind::Changed", "new_unknown marks the text %s: original bytes would be fabricated from text that was never the loader's" % expr_text(f["decoded_kind"]), where(l))
        else:
            R.violation("C20-a", "ModuleTextSource constructed in %s" % fn, "text source assembled outside new_source_with_text / new_unknown: nothing ties decoded_kind to how the text was decoded", where(l))
    fw = [n for n in F.all_nodes() if n["k"] in ("Assign", "AssignOp") and peel(n["l"]).get("k") == "Field" and peel(n["l"]).get("adt") == "graph::ModuleTextSource" and not n["_top"].get("derived")]
    R.ob("C20-a", "no field-wise write to a ModuleTextSource", not fw, "`%s` changes one half of (text, decoded_kind)" % (expr_text(fw[0]) if fw else ""), where(fw[0]) if fw else "")
    # ---------------- C20-b / c ---------------------------------------------
    gb = F.body("graph::ModuleTextSource::try_get_original_bytes")
    mm = [n for n in gb["_nodes"] if n["k"] == "Match"]
    if R.ob("C20-b", "byte recovery matches on the decode kind", len(mm) == 1 and mentions_field(mm[0]["scrut"], "decoded_kind"), "shape changed", gb["file"]):
        covered = set()
        ca = False
        for arm in mm[0]["arms"]:
            v, c = pat_variants(arm["pat"])
            covered |= v
            ca = ca or c
            name = (sorted(v) or ["_"])[0].split("::")[-1]
            unsafe = [n for n in walk(arm["body"]) if n.get("k") == "Block" and n.get("unsafe")]
            vals = []
            _tail_values(F, arm["body"], vals)
            if name == "Changed":
                R.ob("C20-b", "re-encoded text never yields 'original' bytes", all(ctor_of(x) == "std::option::Option::None" for x in vals) and not unsafe, "Changed arm yields %s" % [expr_text(x)[:30] for x in vals], where(arm["body"]))
            elif name == "OnlyUtf8Bom":
                ext = [n for n in walk(arm["body"]) if n.get("k") == "MethodCall" and n["name"] == "extend"]
                ok = len(ext) == 2 and not unsafe
                if ok:
                    a0 = peel(ext[0]["args"][0])
                    bom = [peel(x).get("v") for x in a0.get("args", [])] if a0.get("k") == "Array" else None
                    a1 = peel_value(ext[1]["args"][0])
                    ok = bom == [0xEF, 0xBB, 0xBF] and a1.get("k") == "MethodCall" and a1["name"] == "as_bytes" and field_of(a1["recv"]) == "text" and may_reach(F, ext[0], ext[1]) and not may_reach(F, ext[1], ext[0])
                R.ob("C20-b", "BOM-stripped text is restored as EF BB BF + text bytes", ok, "OnlyUtf8Bom arm no longer prepends exactly the UTF-8 BOM to the stored text", where(arm["body"]))
            elif name == "Unchanged":
                R.ob("C20-b", "only the Unchanged arm reinterprets the stored text", len(unsafe) == 1, "unsafe blocks in Unchanged arm: %d" % len(unsafe), where(arm["body"]))
                tm = [n for n in walk(arm["body"]) if n.get("k") == "Call" and (n.get("fn") or "").endswith("::transmute")]
                ok = len(tm) == 1
                if ok:
                    src_t = F.ty(tm[0]["args"][0]) or ""
                    dst_t = F.ty(tm[0]) or ""
                    ok = src_t == "*const str" and dst_t == "*const [u8]"
                    src = peel_value(tm[0]["args"][0])
                    raw = None
                    if src.get("res") == "local":
                        for d in local_defs(gb, src["lid"]):
                            if d[0] == "let":
                                raw = peel(d[1])
                    ok = ok and raw is not None and (raw.get("fn") or "").endswith("Arc::into_raw") and peel(raw["args"][0]).get("k") == "MethodCall" and peel(raw["args"][0])["name"] == "clone" and peel_value(raw["args"][0]).get("field") == "text"
                    p = tm[0]["_p"]
                    while p is not None and p.get("k") in ("Block",):
                        p = p["_p"]
                    ok = ok and p is not None and (p.get("fn") or "").endswith("Arc::from_raw")
                R.ob("C20-c", "the reinterpretation is Arc<str> -> Arc<[u8]> of a clone of the stored text", ok, "the unsafe block no longer is Arc::from_raw(transmute::<*const str, *const [u8]>(Arc::into_raw(self.text.clone())))", where(arm["body"]))
        allv = {"deno_media_type::encoding::DecodedArcSourceDetailKind::" + x for x in ("Unchanged", "Changed", "OnlyUtf8Bom")}
        R.ob("C20-b", "every decode kind handled explicitly", covered >= allv and not ca, "catch-all or missing decode kind (covered %s)" % sorted(x.split("::")[-1] for x in covered), where(mm[0]))
    unsafe_elsewhere = [n for n in F.all_nodes() if n.get("k") == "Block" and n.get("unsafe") and n["_top"]["file"] == "src/graph.rs" and n["_top"] is not gb and not n["_top"].get("derived") and not n.get("mac")]
    R.ob("C20-c", "no other unsafe block in graph.rs", not unsafe_elsewhere, "unsafe block in %s" % (unsafe_elsewhere[0]["_top"]["path"] if unsafe_elsewhere else ""), where(unsafe_elsewhere[0]) if unsafe_elsewhere else "")
    tms = [n for n in F.all_nodes() if n.get("k") == "Call" and (n.get("fn") or "").endswith("::transmute") and n["_top"]["file"].startswith("src/graph") and n["_top"] is not gb]
    R.ob("C20-c", "no other transmute in graph.rs", not tms, "transmute in %s" % (tms[0]["_top"]["path"] if tms else ""), where(tms[0]) if tms else "")
    # ---------------- C20-d ------------------------------------------------
    ns = F.body("graph::new_source_with_text")
    dec = [n for n in ns["_nodes"] if n.get("k") == "Call" and (n.get("fn") or "").endswith("encoding::decode_arc_source_detail")]
    if R.ob("C20-d", "decoding goes through decode_arc_source_detail", len(dec) == 1, "shape changed", ns["file"]):
        cs = peel_value(dec[0]["args"][0])
        ok = False
        if cs.get("res") == "local":
            for d in local_defs(ns, cs["lid"]):
                if d[0] == "let":
                    i = peel(d[1])
                    if i.get("k") == "MethodCall" and i["name"] == "unwrap_or_else" and peel_value(i["recv"]).get("lid") == ns["body"]["params"][2].get("lid"):
                        det = [x for x in walk(i["args"][0]) if x.get("k") == "Call" and (x.get("fn") or "").endswith("encoding::detect_charset")]
                        ok = len(det) == 1 and peel_value(det[0]["args"][0]).get("lid") == ns["body"]["params"][0].get("lid") and any(z.get("lid") == ns["body"]["params"][1].get("lid") for z in walk(det[0]["args"][1]))
        R.ob("C20-d", "charset = explicit header charset, else detected from BOM / specifier", ok, "charset argument is `%s`" % expr_text(dec[0]["args"][0]), where(dec[0]))
        R.ob("C20-d", "the decoded bytes are the loader's bytes", peel_value(dec[0]["args"][1]).get("lid") == ns["body"]["params"][1].get("lid"), "decodes `%s`" % expr_text(dec[0]["args"][1]), where(dec[0]))
        de = [n for n in ns["_nodes"] if ctor_of(n) == "graph::ModuleLoadError::Decode"]
        R.ob("C20-d", "undecodable input becomes a Decode error", len(de) == 1 and any(n.get("k") == "MethodCall" and n["name"] == "map_err" for n in ns["_nodes"]), "decode failure no longer mapped to ModuleLoadError::Decode", ns["file"])
    callers = [n for n in F.all_nodes() if callee_matches(n, ["graph::new_source_with_text"])]
    R.floor("C20-d callers of new_source_with_text", len(callers), 3)
    pm = F.body("graph::parse_module_source_and_info")
    pc = [n for n in callers if n["_top"] is pm]
    R.floor("C20-d decoding sites in parse_module_source_and_info", len(pc), 2)
    hdr = [n for n in pm["_nodes"] if callee_matches(n, ["source::resolve_media_type_and_charset_from_headers"])]
    R.ob("C20-d", "media type and charset are taken from the response headers", len(hdr) == 1, "parse_module_source_and_info no longer calls resolve_media_type_and_charset_from_headers", pm["file"])
    # the header helper hands the charset of the content-type header through unchanged
    rh = F.body("source::resolve_media_type_and_charset_from_headers")
    inner = [n for n in rh["_nodes"] if n.get("k") == "Call" and (n.get("fn") or "").endswith("resolve_media_type_and_charset_from_content_type")]
    if R.ob("C20-d", "the header helper delegates to deno_media_type", len(inner) == 1, "resolve_media_type_and_charset_from_headers no longer calls resolve_media_type_and_charset_from_content_type", rh["file"]):
        vals = []
        _tail_values(F, rh["body"]["value"], vals)
        for r_ in walk(rh["body"]["value"]):
            if r_.get("k") == "Ret" and "e" in r_:
                _tail_values(F, r_["e"], vals)
        for v in vals:
            ok = any(peel(y) is inner[0] for y in through_locals(v))
            pv = peel(v)
            if not ok and pv.get("k") == "Tup":
                els = pv.get("elems") or pv.get("args") or []
                if len(els) == 2:
                    cs = peel_value(els[1])
                    if cs.get("res") == "local":
                        for d in local_defs(rh, cs["lid"]):
                            # bound at tuple position 1 of `let (mt, cs) = <delegate call>`
                            if d[0] in ("letpat", "pat", "let") and any(x is inner[0] for dd in d[1:] if isinstance(dd, dict) for x in walk(dd)):
                                ok = True
            R.ob("C20-d", "the charset of the content-type header is handed on for every media type", ok,
                 "resolve_media_type_and_charset_from_headers returns `%s`: the header charset is dropped or replaced on this path, so text in that charset is decoded as something else" % expr_text(v)[:60], where(v))
    for c in pc:
        a = peel_value(c["args"][2])
        ok = False
        if a.get("res") == "local" and hdr:
            for d in local_defs(pm, a["lid"]):
                if d[1] is not None and (d[1] is hdr[0] or is_within(hdr[0], d[1])):
                    ok = True
        R.ob("C20-d", "text modules (JS/TS and JSON alike) are decoded with the header charset", ok,
             "new_source_with_text is called with charset `%s` instead of the charset from the content-type header: a module served in another charset is stored as mojibake (or accepted instead of a decode error)" % expr_text(c["args"][2]), where(c))
    # module `source` fields are only assigned whole, from new_source_with_text / new_unknown
    S = Slicer(F, sources=["graph::new_source_with_text", "ModuleTextSource::new_unknown"])
    for adt in ("graph::JsModule", "graph::JsonModule"):
        for e in S.field_inits().get((adt, "source"), []):
            if e["_top"].get("derived"):
                continue
            leaves = S.origins(e)
            bad = [l for l in leaves if l.kind not in ("src", "param")]
            R.ob("C20-a", "%s.source in %s comes from a decode" % (adt, e["_top"]["path"].split("::")[-1]), not bad and bool(leaves), "source = `%s` (%s)" % (expr_text(e)[:40], sorted({l.key() for l in bad})[:3]), where(e))
    # ---------------- C20-e ------------------------------------------------
    for fn, fld in (("graph::JsModule::size", "text"), ("graph::JsonModule::size", "text"), ("graph::serialize_source", "text")):
        b = F.body(fn)
        ln = [n for n in b["_nodes"] if n.get("k") == "MethodCall" and n["name"] == "len"]
        ok = len(ln) == 1 and peel_value(ln[0]["recv"]).get("field") == fld and peel_value(ln[0]["recv"]).get("adt") == "graph::ModuleTextSource"
        R.ob("C20-e", "%s reports the byte length of the stored text" % fn.split("::", 1)[1], ok, "size is `%s`" % (expr_text(ln[0]) if ln else "?"), b["file"])

    # ---------------- later (round 6) ---------------------------------------
    # C20-h: wherever a loader response is turned into a module, the response's
    # own headers (charset!) and content are what is parsed
    n_sites = 0
    for b in F.bodies:
        if not b["path"].startswith("graph::Builder::"):
            continue
        for n in b["_nodes"]:
            if n.get("k") == "Struct" and (n.get("adt") or "").endswith("ParseModuleAndSourceInfoOptions"):
                g = guards_at(F, n, stop_at_async=False)
                resp = [x for x in g if x.kind == "pat" and x.pol and "LoadResponse::Module" in pat_text(x.pat)]
                if not resp:
                    continue
                n_sites += 1
                binds = {p_["lid"] for x in resp for p_ in pat_bindings(x.pat)}
                f = {x["name"]: x["e"] for x in n["fields"]}
                for fld in ("maybe_headers", "content"):
                    ok = fld in f and any(peel_value(y).get("lid") in binds for y in through_locals(f[fld]))
                    R.ob("C20-h", "%s of the parsed module is the loader response's own [%s]" % (fld, b["path"].split("::")[-1]), ok,
                         "a LoadResponse::Module is parsed with `%s: %s` instead of the value the loader supplied: %s" % (fld, expr_text(f.get(fld, {}))[:40] if fld in f else "?",
                             "the content-type charset of this response never reaches the decoder (text decoded as UTF-8 although the header says otherwise)" if fld == "maybe_headers" else "the stored text is not what the loader supplied"),
                         where(n), key="C20|C20-h|%s|%s" % (fld, b["path"].split("::")[-1]))
    R.floor("C20-h loader responses parsed in the builder", n_sites, 3)
