"""C11 — fast check preserves the public API and drops everything else.

Relational facts about two texts (equal export sets, unchanged signatures) are
NOT decided. Decided:
  a. entrypoints are traced with star-with-default (so `default` and star
     re-exports of an entrypoint are part of the public API), only when no
     entrypoint diagnostic exists, and the trace queue is drained.
  (b. producer/consumer agreement of range keys was tried and dropped: the
     tracer records ranges of inner variant nodes while the transformer asks for
     the range of the enum wrapper, so a type-level match is not exact.)
  c. type-only declarations are retained or removed purely by public range and
     are not rewritten; removal of a declaration is decided by the public range
     of the declaration (or its export wrapper) only.
  d. imports / named exports keep exactly the specifiers in the public ranges
     and are dropped when none remains.
  e. trace-request merging never forgets `default`; the optional-parameter
     normalisation's own state machine: which patterns are optional, the start
     index restarts after every required parameter, a parameter is optional
     from that index on.
  f. every `retain(|x| public_ranges.contains(..))` of the transformer is
     passed on every non-error path of the code that owns it.
"""
from .lib import *
from .lib import _tail_values

EXPLANATION = (
    "Argument provenance of the entrypoint traces (T4), producer/consumer agreement of the range keys between range finder and "
    "transformer (T12), arm tables of transform_decl / transform_item for retention (T8)."
)
EXPLANATION += " " + '(The range-key agreement rule mentioned above was dropped as inexact; see DESIGN.md 2.3.) Plus: start-index computation of the trailing optional run, conversion of an optional parameter, every public-range `retain` passed on every non-error path (T2), the package queue loop never stops early.'
NOT_DECIDED = "equality of export sets, signature preservation (relational facts about two texts); of the optional-parameter normalisation only the start-index computation is decided, not the emitted text"
ASSUMPTIONS = []

T = "fast_check::transform::FastCheckTransformer::"
RF = "fast_check::range_finder::PublicRangeFinder::"


def run(F, R, tier):
    _round6(F, R)
    fd = F.body(RF + "find")
    tr = [n for n in fd["_nodes"] if callee_matches(n, [RF + "add_pending_trace"])]
    if R.ob("C11-a", "entrypoints are traced", len(tr) == 1, "shape changed", fd["file"]):
        a = tr[0]["args"]
        R.ob("C11-a", "entrypoints are traced with star-with-default", callee_matches(peel(a[2]), ["ImportedExports::star_with_default"]),
             "entrypoints are traced with `%s`: the default export (or star re-exports) of an entrypoint would be dropped from the emitted module" % expr_text(a[2]), where(tr[0]))
        lp = [x for x in k_ancestors(tr[0]) if x["k"] == "For"]
        R.ob("C11-a", "every entrypoint is traced", bool(lp) and tyc(F, lp[0]["iter"], "BTreeSet<url::Url>") and peel_value(a[1]).get("lid") in {b["lid"] for b in pat_bindings(lp[0]["pat"])}, "not a loop over all entrypoints", where(tr[0]))
        g = guards_at(F, tr[0])
        cg = [x for x in g if x.kind == "cond"]
        ok = len(cg) == 1 and not cg[0].pol and peel(cg[0].node).get("res") == "local" and tyc(F, cg[0].node, "bool")
        if ok:
            # the flag is only ever set to true next to pushing an entrypoint diagnostic
            lid = peel(cg[0].node)["lid"]
            sets = [n for n in fd["_nodes"] if n["k"] == "Assign" and peel(n["l"]).get("lid") == lid]
            ok = bool(sets) and all(peel(n["r"]).get("v") is True and any(y.get("k") == "MethodCall" and y["name"] == "push" and mentions_field(y, "diagnostics") for y in walk(n["_p"]["_p"])) for n in sets)
        R.ob("C11-a", "tracing is skipped only when an entrypoint already has a diagnostic", ok, "guards %s" % [x.text() for x in g], where(tr[0]))
    dr = [n for n in fd["_nodes"] if n["k"] == "While" and mentions_field(n["cond"], "pending_traces")]
    R.ob("C11-a", "the trace queue is drained", len(dr) == 1 and any(callee_matches(x, [RF + "analyze_trace"]) for x in walk(dr[0]["body"])), "pending traces are not all analysed", fd["file"])
    ep = [n for n in fd["_nodes"] if n.get("k") == "MethodCall" and n["name"] == "values" and tyc(F, n["recv"], "BTreeMap<std::string::String, std::string::String>")]
    R.ob("C11-a", "entrypoints are all values of the package's exports map", len(ep) == 1, "entrypoints no longer derived from every export", fd["file"])
    # every queued package is analysed: the package queue loop never stops early
    pq = [n for n in fd["_nodes"] if n["k"] == "While" and any(x.get("k") == "MethodCall" and x["name"] == "pop_front" and field_of(x["recv"]) == "pending_nvs" for x in walk(n["cond"]))]
    if R.ob("C11-a", "package queue loop found", len(pq) == 1, "find no longer drains pending_nvs with a while-let loop", fd["file"]):
        early = [x for x in walk(pq[0]["body"]) if x.get("k") in ("Break", "Ret") and not [a for a in k_ancestors(x) if a.get("k") in ("For", "While", "Loop", "Closure") and is_within(a, pq[0]["body"])]]
        R.ob("C11-a", "every queued package is analysed", not early, "the package queue loop of find can stop early (`%s`): packages queued behind it get no fast-check output" % (expr_text(early[0])[:20] if early else ""), where(early[0]) if early else "")
    # ---------------- C11-c ------------------------------------------------
    td = F.body(T + "transform_decl")
    prs = [n for n in td["_nodes"] if n.get("k") == "LetStmt" and "init" in n and peel(n["init"]).get("k") == "MethodCall" and peel(n["init"])["name"] == "unwrap_or_else" and tyc(F, n["pat"], "SourceRange")]
    pr_lid = prs[0]["pat"].get("lid") if prs else None
    mm = [n for n in td["_nodes"] if n["k"] == "Match" and tyc(F, n["scrut"], "::Decl") and peel(n["scrut"]).get("lid") == td["body"]["params"][1].get("lid")]
    if R.ob("C11-c", "declaration match found", len(mm) == 1, "shape changed", td["file"]):
        ca = False
        for arm in mm[0]["arms"]:
            v, c = pat_variants(arm["pat"])
            ca = ca or c
            names = {x.split("::")[-1] for x in v}
            if names & {"TsInterface", "TsTypeAlias", "TsEnum"}:
                vals = []
                _tail_values(F, arm["body"], vals)
                ok = len(vals) == 1 and ctor_of(vals[0]) == "std::result::Result::Ok"
                if ok:
                    inner = peel(vals[0]["args"][0])
                    ok = callee_matches(inner, ["TransformItemResult::from_retain"]) and any(callee_matches(peel(y), ["ModulePublicRanges::contains"]) and peel_value(peel(y)["args"][0]).get("lid") == pr_lid for y in through_locals(inner["args"][0]))
                writes = [n for n in walk(arm["body"]) if n["k"] in ("Assign", "AssignOp")]
                R.ob("C11-c", "%s is retained exactly when its range is public, untouched" % sorted(names)[0], ok and not writes, "arm is `%s`" % expr_text(arm["body"])[:80], where(arm["body"]))
            if names & {"Class", "Fn"}:
                rets = [n for n in walk(arm["body"]) if n["k"] == "Ret"]
                ok = len(rets) == 1 and any(x.kind == "cond" and not x.pol and callee_matches(x.node, ["ModulePublicRanges::contains"]) and peel_value(x.node["args"][0]).get("lid") == pr_lid for x in guards_at(F, rets[0]))
                R.ob("C11-c", "%s is removed exactly when its range is not public" % sorted(names)[0], ok, "removal of %s not decided by !public_ranges.contains(&public_range)" % sorted(names)[0], where(arm["body"]))
        R.ob("C11-c", "every declaration kind handled explicitly", not ca, "catch-all over Decl", where(mm[0]))
    pr = prs
    ok = len(pr) == 1 and peel(pr[0]["init"]).get("name") == "unwrap_or_else" and peel_value(peel(pr[0]["init"])["recv"]).get("lid") == td["body"]["params"][3].get("lid") and any(x.get("name") == "range" for x in walk(pr[0]["init"]) if x.get("k") == "MethodCall")
    R.ob("C11-c", "the deciding range is the export wrapper's, else the declaration's own", ok, "public_range = %s" % (expr_text(pr[0]["init"]) if pr else "?"), td["file"])
    # ---------------- C11-d ------------------------------------------------
    ti = F.body(T + "transform_item")
    rt = [n for n in ti["_nodes"] if n.get("k") == "MethodCall" and n["name"] == "retain" and field_of(n["recv"]) == "specifiers"]
    R.floor("C11-d specifier filters", len(rt), 2)
    for r in rt:
        clo = peel(r["args"][0])
        v = peel(clo["body"]["value"])
        ok = callee_matches(v, ["ModulePublicRanges::contains"]) and any(x.get("name") == "range" and peel_value(x["recv"]).get("lid") == clo["body"]["params"][0].get("lid") for x in walk(v) if x.get("k") == "MethodCall")
        R.ob("C11-d", "import/export specifiers are kept exactly when their range is public", ok, "filter is `%s`" % expr_text(v), where(r))
        blk = r
        while blk.get("_p") is not None and blk.get("k") != "Block":
            blk = blk["_p"]
        ret = [n for n in walk(blk) if n.get("k") == "LetStmt" and "init" in n and tyc(F, n["pat"], "bool") and mentions_field(n["init"], "specifiers")]
        ok = len(ret) == 1 and peel(ret[0]["init"]).get("k") == "Unary" and any(y.get("k") == "MethodCall" and y["name"] == "is_empty" for y in walk(ret[0]["init"]))
        R.ob("C11-d", "the statement is dropped when no specifier remains", ok, "retain = %s" % (expr_text(ret[0]["init"]) if ret else "?"), where(r))

    # ---------------- C11-e ------------------------------------------------
    # merging trace requests never forgets a requested `default` (shared with C09-L)
    ad = F.body("fast_check::range_finder::ImportedExports::add")
    stars = [n for n in ad["_nodes"] if n["k"] == "Assign" and ctor_of(peel(n["r"])) == "fast_check::range_finder::ImportedExports::Star"]
    R.floor("C11-e downgrades to Star in ImportedExports::add", len(stars), 1)
    for a in stars:
        g = guards_at(F, a)
        ok = any(x.kind == "cond" and not x.pol and x.node.get("k") == "MethodCall" and x.node["name"] == "contains_key" and peel(x.node["args"][0]).get("v") == "default" for x in g)
        R.ob("C11-e", "a requested `default` export survives a later star request for the same module", ok,
             "`*self = ImportedExports::Star` without `!subset.contains_key(\"default\")`: the default export requested by an earlier re-export is dropped from the emitted module while the entrypoint still re-exports it", where(a))
    # optional-parameter normalisation: which patterns continue a trailing optional run
    bs = [b for b in F.bodies if b["path"].endswith("ParamsOptionalStartIndex::build::is_param_pat_optional")]
    if R.ob("C11-e", "optional-run classifier found", len(bs) == 1, "is_param_pat_optional moved", "src/fast_check/transform.rs"):
        mm = [n for n in bs[0]["_nodes"] if n["k"] == "Match"]
        table = {}
        ca = False
        for arm in mm[0]["arms"] if mm else []:
            v, c = pat_variants(arm["pat"])
            ca = ca or c
            b_ = peel(arm["body"])
            for x in v:
                table[x.split("::")[-1]] = b_.get("v") if b_.get("k") == "Lit" else ("field:" + b_.get("field", "?") if b_.get("k") == "Field" else "?")
        R.ob("C11-e", "defaulted and rest parameters continue a trailing optional run", table.get("Assign") is True and table.get("Rest") is True and not ca,
             "is_param_pat_optional maps Assign -> %s, Rest -> %s: `f(a = 1, ...rest)` would be emitted with `a` as a required parameter, changing the public signature beyond the documented normalisation" % (table.get("Assign"), table.get("Rest")), bs[0]["file"])
        R.ob("C11-e", "identifier / array / object patterns are optional exactly when marked so", all(table.get(k) == "field:optional" for k in ("Ident", "Array", "Object")), "table: %s" % table, bs[0]["file"])
    # the start of the trailing optional run: reset by every required parameter
    bb = [b for b in F.bodies if b["path"].endswith("ParamsOptionalStartIndex::build")]
    if R.ob("C11-e", "optional-run builder found", len(bb) == 1, "ParamsOptionalStartIndex::build moved", "src/fast_check/transform.rs"):
        b = bb[0]
        vals = return_values(F, b)
        L = None
        if len(vals) == 1 and peel(vals[0]).get("k") == "Call" and len(peel(vals[0])["args"]) == 1:
            a0 = peel_value(peel(vals[0])["args"][0])
            if a0.get("res") == "local":
                L = a0["lid"]
        if R.ob("C11-e", "the builder returns its running index unmodified", L is not None, "build returns `%s`, not the running start index" % (expr_text(vals[0])[:50] if vals else "?"), b["file"]):
            defs = local_defs(b, L)
            init_none = any(d[0] == "let" and d[1] is not None and ctor_of(peel(d[1])) == "std::option::Option::None" for d in defs)
            fors = [n for n in b["_nodes"] if n["k"] == "For"]
            cls_call = lambda x: x.get("k") == "Call" and (x.get("fn") or "").endswith("is_param_pat_optional")
            ok_reset = ok_set = False
            why = ""
            if len(fors) == 1:
                asg = [n for n in walk(fors[0]["body"]) if n["k"] == "Assign" and peel(n["l"]).get("lid") == L]
                resets = [a for a in asg if ctor_of(peel(a["r"])) == "std::option::Option::None"]
                sets = [a for a in asg if ctor_of(peel(a["r"])) == "std::option::Option::Some"]
                idx_lids = {x["lid"] for x in pat_bindings(fors[0]["pat"])}
                # every iteration over a required parameter passes a reset
                iffs = [n for n in walk(fors[0]["body"]) if n["k"] == "If" and cls_call(peel(n["cond"])) or (n["k"] == "If" and peel(n["cond"]).get("k") == "Unary" and cls_call(peel(peel(n["cond"])["e"])))]
                if len(iffs) == 1:
                    neg = peel(iffs[0]["cond"]).get("k") == "Unary"
                    req_branch = iffs[0]["then"] if neg else iffs[0].get("else")
                    if req_branch is not None:
                        bad, _ = must_pass(F, req_branch, lambda n: n in resets, exit_kinds=("fallthrough", "continue", "break"))
                        ok_reset = bool(resets) and not bad
                ok_set = len(sets) >= 1
                for a in sets:
                    g = guards_at(F, a, stop_at=fors[0])
                    first = any(x.kind == "cond" and x.pol and x.node.get("fn") == "std::option::Option::is_none" and peel_value(x.node["recv"]).get("lid") == L for x in g)
                    opt = any(x.kind == "cond" and x.pol and cls_call(x.node) for x in g)
                    arg = peel_value(peel(a["r"])["args"][0])
                    ok_set = ok_set and first and opt and arg.get("lid") in idx_lids
                if not (ok_reset and ok_set) and len(asg) == 1 and peel(asg[0]["r"]).get("k") == "If" and "else" in peel(asg[0]["r"]):
                    # `start = if optional(pat) { start.or(Some(i)) } else { None }` once per iteration
                    iff = peel(asg[0]["r"])
                    c_ = peel(iff["cond"])
                    neg = c_.get("k") == "Unary" and c_["op"] == "!"
                    if cls_call(peel(c_["e"]) if neg else c_):
                        opt_b, req_b = (iff["else"], iff["then"]) if neg else (iff["then"], iff["else"])
                        ov, rv_ = [], []
                        _tail_values(F, opt_b, ov)
                        _tail_values(F, req_b, rv_)
                        ok_reset = bool(rv_) and all(ctor_of(x) == "std::option::Option::None" for x in rv_)
                        def keeps_first(x):
                            x = peel(x)
                            if not (x.get("k") == "MethodCall" and x["name"] in ("or", "or_else") and peel_value(x["recv"]).get("lid") == L):
                                return False
                            somes = [y for y in walk(x["args"][0]) if ctor_of(y) == "std::option::Option::Some"]
                            return len(somes) == 1 and peel_value(somes[0]["args"][0]).get("lid") in idx_lids
                        ok_set = bool(ov) and all(keeps_first(x) for x in ov)
                        bad_, _ = must_pass(F, fors[0]["body"], lambda n: n is asg[0], exit_kinds=("fallthrough", "continue", "break"))
                        ok_reset = ok_reset and not bad_
                why = "resets on required parameters: %s; set to the index of the first optional of a run: %s" % (ok_reset, ok_set)
            R.ob("C11-e", "the optional run restarts after every required parameter", init_none and ok_reset and ok_set,
                 "ParamsOptionalStartIndex::build no longer yields the start of the *trailing* run of optional parameters (%s): in `f(a = 1, b, c = 2)` the parameters before a required one would be emitted as optional, which is not the documented normalisation" % why, b["file"])
    io = [b for b in F.bodies if b["path"].endswith("ParamsOptionalStartIndex::is_optional_at_index")]
    if R.ob("C11-e", "optional-run test found", len(io) == 1, "is_optional_at_index moved", "src/fast_check/transform.rs"):
        cmpn = [n for n in io[0]["_nodes"] if n.get("k") == "Binary" and n["op"] in (">=", "<=", ">", "<", "==", "!=")]
        ok = len(cmpn) == 1 and ((cmpn[0]["op"] == ">=" and peel_value(cmpn[0]["l"]).get("lid") == io[0]["body"]["params"][1].get("lid")) or (cmpn[0]["op"] == "<=" and peel_value(cmpn[0]["r"]).get("lid") == io[0]["body"]["params"][1].get("lid")))
        fb = [n for n in io[0]["_nodes"] if n.get("k") == "MethodCall" and n["name"] == "unwrap_or" and peel(n["args"][0]).get("v") is False]
        if not fb:
            # `match self.0 { Some(start) => index >= start, None => false }`
            fb = [a_ for m_ in io[0]["_nodes"] if m_["k"] == "Match" for a_ in m_["arms"] if ("Option::None" in pat_text(a_["pat"]) or pat_text(a_["pat"]) == "_") and peel(a_["body"]).get("v") is False]
        R.ob("C11-e", "a parameter is optional exactly from the start of the trailing run on", ok and len(fb) == 1, "is_optional_at_index compares `%s`" % (expr_text(cmpn[0]) if cmpn else "?"), io[0]["file"])

    # `p?: T` before a required parameter becomes `p: T | undefined`: both halves happen
    co = F.body("fast_check::transform::convert_optional_ident_to_nullable_type")
    p0 = co["body"]["params"][0].get("lid")
    opt = [n for n in co["_nodes"] if n["k"] == "Assign" and field_of(n["l"]) == "optional" and peel(n["r"]).get("v") is False and peel_value(peel(n["l"]).get("e", {})).get("lid") == p0]
    bad, _ = must_pass(F, co["body"]["value"], lambda n: n in opt)
    R.ob("C11-e", "the converted parameter is no longer marked optional", len(opt) == 1 and not bad, "convert_optional_ident_to_nullable_type leaves `optional` set: the output would be `p?: T | undefined` before a required parameter, which is not valid TypeScript", co["file"])
    un = [n for n in co["_nodes"] if n["k"] == "Struct" and (n.get("adt") or "").endswith("TsUnionType")]
    ok = len(un) == 1 and any((ctor_of(x) or "").endswith("TsKeywordTypeKind::TsUndefinedKeyword") for x in walk(un[0])) and any(x.get("k") == "Field" and x["field"] == "type_ann" for x in walk(un[0]))
    R.ob("C11-e", "its type becomes the union of the written type and `undefined`", ok, "union construction changed", co["file"])

    # ---------------- C11-f ------------------------------------------------
    # filtering by public range is not skippable: a `retain(|x| public_ranges.contains(..))`
    # is passed on every non-error path of the code that owns it
    n_f = 0
    for b in F.bodies:
        if b.get("derived") or not b["path"].startswith(T):
            continue
        for n in b["_nodes"]:
            if n.get("k") == "MethodCall" and n["name"] == "retain" and peel(n["args"][0]).get("k") == "Closure" and mentions_call(peel(n["args"][0])["body"]["value"], ["ModulePublicRanges::contains"]):
                n_f += 1
                scope = b["body"]["value"]
                for a in k_ancestors(n):
                    if a.get("k") == "Match":
                        for arm in a["arms"]:
                            if is_within(n, arm["body"]):
                                scope = arm["body"]
                        break
                bad, _ = must_pass(F, scope, lambda x, n=n: x is n, exit_kinds=("fallthrough", "return"))
                bad = [(kd, nd) for kd, nd in bad if not (kd == "return" and ctor_of(peel(nd.get("e", {}))) == "std::result::Result::Err")]
                R.ob("C11-f", "%s of %s is filtered by public range on every path" % (field_of(n["recv"]) or expr_text(n["recv"]), b["path"].split("::")[-1]), not bad,
                     "a path through %s returns without `%s.retain(|x| public_ranges.contains(..))`: entries that are neither exported nor referenced from the public API stay in the emitted module" % (b["path"].split("::")[-1], expr_text(n["recv"])), where(n))
    R.floor("C11-f public-range filters", n_f, 3)


def _round6(F, R):
    # C11-m: the accessibility of a member built from a source member is the
    # source's accessibility; the only normalisation is dropping an explicit
    # `public`.  No other modifier may be singled out (protected must survive).
    n_sites = 0
    for b in F.bodies:
        if b["file"] != "src/fast_check/transform.rs":
            continue
        for n in b["_nodes"]:
            if n.get("k") == "Struct" and (n.get("adt") or "").split("::")[-1] in ("ClassProp", "ClassMethod", "PrivateProp", "AutoAccessor", "TsParamProp"):
                f = {x["name"]: x["e"] for x in n["fields"]}
                e = f.get("accessibility")
                if e is None or not any(y.get("k") == "Field" and y["field"] == "accessibility" for y in walk(e)):
                    continue
                n_sites += 1
                vs = set()
                for y in walk(e):
                    if y.get("k") == "Path":
                        vs |= set(re.findall(r"Accessibility::(\w+)", str(y.get("path", "")) + " " + str(y.get("ctor", ""))))
                    if y.get("k") == "Match":
                        for a_ in y["arms"]:
                            vs |= set(re.findall(r"Accessibility::(\w+)", pat_text(a_["pat"])))
                    vs |= set(re.findall(r"Accessibility::(\w+)", ctor_of(y) or ""))
                R.ob("C11-m", "a member copied from the source keeps its accessibility (only an explicit `public` is dropped) [%s:%s]" % (b["path"].split("::")[-1], (n.get("adt") or "").split("::")[-1]), vs <= {"Public"},
                     "the accessibility of an emitted member is computed by singling out %s: a `protected` (or `private`) member of the source changes its visibility in the emitted declaration" % sorted(vs - {"Public"}),
                     where(n), key="C11|C11-m|accessibility|%s" % b["path"].split("::")[-1])
    R.floor("C11-m members whose accessibility is copied from the source", n_sites, 2)
