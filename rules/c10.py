"""C10 — fast-check output has no executable logic and needs no type inference.

The emitted text itself is not decided (it is a statement about output).
Decides over the transformer's code:
  a. bodies are cleared: transform_fn clears `body.stmts` on every non-ambient
     path that has a body, only placeholder `return` statements are pushed
     afterwards, and async / generator / decorators are reset; the constructor
     arm keeps a statement only under `Callee::Super`.
  b. executable expressions are never leavable: in
     maybe_transform_expr_if_leavable the variants Call, New, Seq, Assign,
     TaggedTpl, Yield, Class, SuperProp, PrivateName, JSX*, OptChain,
     MetaProp, TsInstantiation yield constant false; TsAs / TsTypeAssertion
     overwrite their expression; Fn / Arrow are transformed; no catch-all.
  c. only declarations survive: in transform_item every statement kind other
     than Decl and Expr(Assign) is removed; no catch-all over Stmt.
  d. TypeScript-private members become `any`-typed declarations without value.
  e. ECMAScript-private members, static blocks and decorators are removed.
  f. a missing explicit type leads to an inferred type, a leavable initialiser
     or a diagnostic (containment rule over every `type_ann / return_type
     .is_none()` test of the transformer).
"""
from .lib import *
from .lib import _tail_values

EXPLANATION = (
    "Arm tables over the swc Expr / Stmt / ClassMember enums in the transformer (T8: result category per variant, no "
    "catch-all), must-pass-through of body clearing and decorator removal (T2), guard dominance for TypeScript-private "
    "members (T5) and a containment rule tying every missing-type test to mark_diagnostic (HIR containment)."
)
EXPLANATION += " " + 'Plus: every decorator strip is unskippable within its owning arm (T2), identifier-chain test inspects computed keys (T8), sub-expression verdicts of the leavable test are only combined with `&&`.'
NOT_DECIDED = "that the emitted text, re-parsed, has the stated shape"
ASSUMPTIONS = ["deno_ast/swc emit prints the transformed AST faithfully"]

T = "fast_check::transform::FastCheckTransformer::"
NEVER_LEAVABLE = {"Call", "New", "Seq", "Assign", "TaggedTpl", "Yield", "Class", "SuperProp", "PrivateName", "JSXMember", "JSXNamespacedName", "JSXEmpty", "JSXElement", "JSXFragment", "OptChain", "MetaProp", "TsInstantiation", "Invalid"}
EXPR = "Expr"
STMT = "Stmt"
CM = "ClassMember"


def variant_names(pat, enum):
    v, ca = pat_variants(pat)
    return {x.split("::")[-1] for x in v if len(x.split("::")) >= 2 and x.split("::")[-2] == enum}, ca


def run(F, R, tier):
    _round6(F, R)
    # ---------------- C10-a ------------------------------------------------
    tf = F.body(T + "transform_fn")
    clears = [n for n in tf["_nodes"] if n.get("k") == "MethodCall" and n["name"] == "clear" and field_of(n["recv"]) == "stmts"]
    if R.ob("C10-a", "transform_fn clears the body statements", len(clears) == 1, "transform_fn no longer calls body.stmts.clear()", tf["file"]):
        c = clears[0]
        g = guards_at(F, c)
        conds = [x for x in g if x.kind == "cond"]
        pats = [x for x in g if x.kind == "pat"]
        # the ambient flag: the bool parameter whose true edge returns right at the start of the function
        first = tf["body"]["value"]["stmts"][0] if tf["body"]["value"].get("stmts") else {}
        first = first.get("e", first)
        amb = peel(first.get("cond", {})).get("lid") if first.get("k") == "If" and diverges(F, first.get("then", {})) else None
        ok = amb is not None and all((not x.pol and peel(x.node).get("lid") == amb) for x in conds) and len(pats) == 1 and mentions_field(pats[0].scrut, "body")
        R.ob("C10-a", "the body is cleared whenever the function is not ambient and has a body", ok,
             "body.stmts.clear() is additionally guarded by %s: some function bodies survive into the output" % [x.text()[:50] for x in g], where(c))
        pushes = [n for n in tf["_nodes"] if n.get("k") == "MethodCall" and n["name"] in ("push", "insert", "extend") and field_of(n["recv"]) == "stmts"]
        for p in pushes:
            ok = may_reach(F, c, p) and any((ctor_of(x) or "").endswith("::Stmt::Return") for x in walk(p["args"][0]))
            R.ob("C10-a", "only a placeholder return is put back into a cleared body", ok, "`%s` adds a non-return statement / precedes the clear" % expr_text(p)[:60], where(p))
        for fld, val in (("is_async", False), ("is_generator", False)):
            a = [n for n in tf["_nodes"] if n["k"] == "Assign" and field_of(n["l"]) == fld and peel(n["r"]).get("v") is val]
            fl = Flow(F, lambda n, a=a: n in a)
            fl.run(tf["body"]["value"], False)
            bad = []
            for kind, node, st in fl.exits:
                if st is False and kind in ("return", "fallthrough"):
                    gg = guards_at(F, node) if kind == "return" else []
                    if any(x.kind == "cond" and x.pol and peel(x.node).get("lid") == amb for x in gg):
                        continue
                    bad.append(node)
            R.ob("C10-a", "transform_fn resets %s on every non-ambient path" % fld, len(a) == 1 and not bad, "a path leaves %s set" % fld, tf["file"])
    tcm = F.body(T + "transform_class_member")
    rm = [n for n in tcm["_nodes"] if n.get("k") == "MethodCall" and n["name"] == "retain_mut" and field_of(n["recv"]) == "stmts"]
    if R.ob("C10-a", "constructor bodies are filtered", len(rm) == 1, "constructor arm no longer filters body.stmts", tcm["file"]):
        clo = peel(rm[0]["args"][0])
        vals = []
        _tail_values(F, clo["body"]["value"], vals)
        for r in walk(clo["body"]["value"], into_closures=False):
            if r["k"] == "Ret" and "e" in r:
                vals.append(peel(r["e"]))
        trues = [v for v in vals if v.get("k") == "Lit" and v.get("v") is True]
        nonlit = [v for v in vals if v.get("k") != "Lit"]
        R.ob("C10-a", "constructor statement filter yields literals only", not nonlit, "non-literal retain result `%s`" % (expr_text(nonlit[0]) if nonlit else ""), where(rm[0]))
        for t in trues:
            g = guards_at(F, t, stop_at=clo)
            ok = any(x.kind == "pat" and x.pol and "Callee::Super" in pat_text(x.pat) for x in g) and any(x.kind == "pat" and x.pol and "Expr::Call" in pat_text(x.pat) for x in g)
            R.ob("C10-a", "a constructor statement is kept only if it is a super(..) call", ok, "`true` not guarded by Expr::Call + Callee::Super: %s" % [x.text()[:40] for x in g], where(t))
        R.ob("C10-a", "super(..) arguments are replaced by placeholders", any(callee_matches(n, ["swc_helpers::obj_as_never_expr", "obj_as_never_expr"]) for n in walk(clo)), "super call arguments are kept verbatim", where(rm[0]))

    # ---------------- C10-b ------------------------------------------------
    ml = F.body(T + "maybe_transform_expr_if_leavable")
    mm = [n for n in ml["_nodes"] if n["k"] == "Match" and tyc(F, n["scrut"], "::Expr") and peel(n["scrut"]).get("lid") == ml["body"]["params"][1].get("lid")]
    if R.ob("C10-b", "leavable-expression match found", len(mm) == 1, "shape changed", ml["file"]):
        seen = set()
        ca = False
        for arm in mm[0]["arms"]:
            vs, c = variant_names(arm["pat"], EXPR)
            ca = ca or c
            seen |= vs
            vals = []
            _tail_values(F, arm["body"], vals)
            for v in vs & NEVER_LEAVABLE:
                ok = bool(vals) and all(x.get("k") == "Lit" and x.get("v") is False for x in vals)
                R.ob("C10-b", "Expr::%s is never leavable" % v, ok,
                     "Expr::%s can be left in the output (arm yields %s): executable logic would survive in an initialiser" % (v, [expr_text(x)[:30] for x in vals]), where(arm["body"]))
            for v in vs & {"TsAs", "TsTypeAssertion"}:
                asg = [n for n in walk(arm["body"]) if n["k"] == "Assign" and field_of(n["l"]) == "expr"]
                R.ob("C10-b", "Expr::%s keeps only its type (expression replaced)" % v, len(asg) == 1 and any(callee_matches(x, ["obj_as_never_expr"]) for x in walk(asg[0]["r"])), "the asserted expression is left in place", where(arm["body"]))
            if "Fn" in vs:
                R.ob("C10-b", "function expressions are transformed", any(callee_matches(n, [T + "transform_fn"]) for n in walk(arm["body"])), "Expr::Fn left untransformed", where(arm["body"]))
            if "Arrow" in vs:
                R.ob("C10-b", "arrow functions are transformed", any(callee_matches(n, [T + "transform_arrow"]) for n in walk(arm["body"])), "Expr::Arrow left untransformed", where(arm["body"]))
        # computed keys / members are expressions too: they must be checked
        n_comp = 0
        for n2 in walk(mm[0]):
            if n2.get("k") != "Match":
                continue
            for arm in n2["arms"]:
                v2, _ = pat_variants(arm["pat"])
                if not any(x.endswith("PropName::Computed") or x.endswith("MemberProp::Computed") for x in v2):
                    continue
                n_comp += 1
                binds = {b["lid"] for b in pat_bindings(arm["pat"])}
                rec = [x for x in walk(arm["body"]) if x.get("k") in ("Call", "MethodCall") and ((x.get("k") == "Call" and "f" in x and any(mentions_call(y, [T + "maybe_transform_expr_if_leavable"]) for y in through_locals(peel(x["f"])))) or callee_matches(x, [T + "maybe_transform_expr_if_leavable"]))]
                ok = any(any(y.get("k") == "Field" and y["field"] == "expr" and peel_value(y["e"]).get("lid") in binds for y in walk(r)) for r in rec)
                R.ob("C10-b", "a computed key / member expression is itself checked for leavability", ok,
                     "the `%s` arm does not pass the computed expression to the leavability check: `{ [compute()]: 1 }` would be emitted with the call intact" % pat_text(arm["pat"])[:60], where(arm["body"]))
        R.floor("C10-b computed key / member arms", n_comp, 2)
        R.ob("C10-b", "every executable expression kind has an explicit arm (no catch-all)", NEVER_LEAVABLE <= seen and not ca, "missing %s / catch-all=%s" % (sorted(NEVER_LEAVABLE - seen), ca), where(mm[0]))
        R.analysed["expr_variants_in_leavable_match"] = len(seen)

    # ---------------- C10-c ------------------------------------------------
    ti = F.body(T + "transform_item")
    sm = [n for n in ti["_nodes"] if n["k"] == "Match" and tyc(F, n["scrut"], "::Stmt") and peel(n["scrut"]).get("res") == "local"]
    if R.ob("C10-c", "statement match found", len(sm) == 1, "shape changed", ti["file"]):
        ca = False
        seen = set()
        for arm in sm[0]["arms"]:
            vs, c = variant_names(arm["pat"], STMT)
            ca = ca or c
            seen |= vs
            if vs and not (vs & {"Decl", "Expr"}):
                vals = []
                _tail_values(F, arm["body"], vals)
                ok = bool(vals) and all(ctor_of(v) == "std::result::Result::Ok" and ctor_of(peel(v["args"][0])) == "fast_check::transform::TransformItemResult::Remove" for v in vals)
                R.ob("C10-c", "statements %s are removed" % sorted(vs)[:4], ok, "a non-declaration statement kind can be retained", where(arm["body"]))
            if "Expr" in vs:
                inner = [n for n in walk(arm["body"]) if n["k"] == "Match"]
                ok = False
                if inner:
                    ok = True
                    for a2 in inner[0]["arms"]:
                        v2, c2 = variant_names(a2["pat"], EXPR)
                        vals = []
                        _tail_values(F, a2["body"], vals)
                        if v2 == {"Assign"}:
                            ok = ok and any(callee_matches(x, [T + "transform_assign_expr"]) for x in walk(a2["body"]))
                        else:
                            ok = ok and all(ctor_of(v) == "std::result::Result::Ok" and ctor_of(peel(v["args"][0])).endswith("::Remove") for v in vals)
                R.ob("C10-c", "expression statements are removed unless they are (expando) assignments", ok, "Stmt::Expr arm retains other expressions", where(arm["body"]))
        R.ob("C10-c", "no catch-all over statement kinds", not ca and len(seen) >= 19, "catch-all=%s, %d kinds listed" % (ca, len(seen)), where(sm[0]))

    # ---------------- C10-d / e --------------------------------------------
    cm = [n for n in tcm["_nodes"] if n["k"] == "Match" and tyc(F, n["scrut"], "::ClassMember") and peel(n["scrut"]).get("lid") == tcm["body"]["params"][1].get("lid")]
    if R.ob("C10-e", "class member match found", len(cm) == 1, "shape changed", tcm["file"]):
        ca = False
        seen = set()
        for arm in cm[0]["arms"]:
            vs, c = variant_names(arm["pat"], CM)
            ca = ca or c
            seen |= vs
            vals = []
            _tail_values(F, arm["body"], vals)
            if vs & {"PrivateMethod", "PrivateProp", "StaticBlock", "Empty"}:
                ok = bool(vals) and all(ctor_of(v) == "std::result::Result::Ok" and peel(v["args"][0]).get("v") is False for v in vals)
                R.ob("C10-e", "members %s are removed" % sorted(vs), ok, "ES-private members / static blocks can be retained", where(arm["body"]))
            if vs & {"Method", "ClassProp"}:
                # TS-private path
                priv = [n for n in walk(arm["body"]) if n["k"] == "If" and any((ctor_of(y) or "").endswith("Accessibility::Private") for y in walk(n["cond"])) and mentions_field(n["cond"], "accessibility")]
                if R.ob("C10-d", "%s: TypeScript-private members are special-cased" % sorted(vs)[0], len(priv) >= 1, "no `accessibility == Some(Private)` branch", where(arm["body"])):
                    th = priv[0]["then"]
                    R.ob("C10-d", "%s: private member is typed `any`" % sorted(vs)[0], any(callee_matches(n, ["any_type_ann"]) for n in walk(th)), "private branch does not use any_type_ann()", where(th))
                    val_none = any((n["k"] == "Assign" and field_of(n["l"]) == "value" and ctor_of(peel(n["r"])) == "std::option::Option::None") for n in walk(th)) or \
                        any(n.get("k") == "Struct" and any(f["name"] == "value" and ctor_of(peel(f["e"])) == "std::option::Option::None" for f in n["fields"]) for n in walk(th))
                    R.ob("C10-d", "%s: private member loses its value / body" % sorted(vs)[0], val_none, "private branch keeps the initialiser", where(th))
                    R.ob("C10-d", "%s: private branch returns early" % sorted(vs)[0], diverges(F, th), "private branch falls through into the public handling", where(th))
            if "ClassProp" in vs:
                dc = [n for n in walk(arm["body"]) if n.get("k") == "MethodCall" and n["name"] == "clear" and field_of(n["recv"]) == "decorators"]
                bad, _ = must_pass(F, arm["body"], lambda n: n in dc, exit_kinds=("fallthrough", "return"))
                R.ob("C10-e", "class property decorators are removed on every path", not bad, "a path through the ClassProp arm keeps decorators", where(arm["body"]))
        R.ob("C10-e", "every class member kind handled explicitly", not ca and {"PrivateMethod", "PrivateProp", "StaticBlock", "Constructor", "Method", "ClassProp", "AutoAccessor"} <= seen, "catch-all=%s seen=%s" % (ca, sorted(seen)), where(cm[0]))
    # literals of ClassProp / Param built by the transformer carry no decorators
    n_lit = 0
    for b in F.bodies:
        if not b["path"].startswith(T):
            continue
        for n in b["_nodes"]:
            if n["k"] == "Struct" and (n.get("adt") or "").split("::")[-1] in ("ClassProp", "Param", "PrivateProp") and "swc" in (n.get("adt") or ""):
                d = [f["e"] for f in n["fields"] if f["name"] == "decorators"]
                if not d:
                    continue
                n_lit += 1
                e = peel(d[0])
                ok = (e.get("k") == "Call" and (e.get("fn") or "").endswith(("Vec::new", "Default::default"))) or (e.get("mac") and "vec" in e["mac"]) or (e.get("k") == "Array" and not e["args"])
                R.ob("C10-e", "synthesised %s has no decorators" % n["adt"].split("::")[-1], ok, "decorators: %s" % expr_text(d[0]), where(n), nontrivial=False)
    R.floor("C10-e synthesised members", n_lit, 6)
    tc = F.body(T + "transform_class")
    dc = [n for n in tc["_nodes"] if n.get("k") == "MethodCall" and n["name"] == "clear" and field_of(n["recv"]) == "decorators"]
    R.ob("C10-e", "class decorators are removed", len(dc) == 1, "transform_class keeps n.decorators", tc["file"])
    dc = [n for n in tf["_nodes"] if n.get("k") == "MethodCall" and n["name"] == "clear" and field_of(n["recv"]) == "decorators"]
    R.ob("C10-e", "function and parameter decorators are removed", len(dc) == 2, "transform_fn clears decorators at %d site(s)" % len(dc), tf["file"])

    # every place that strips decorators does so on every non-error path of the
    # code that owns it (innermost enclosing match arm, else loop body, else function)
    n_dc = 0
    for b in F.bodies:
        if b.get("derived") or not b["path"].startswith(T):
            continue
        for n in b["_nodes"]:
            if not (n.get("k") == "MethodCall" and n["name"] == "clear" and field_of(n["recv"]) == "decorators"):
                continue
            n_dc += 1
            scope = b["body"]["value"]
            for a in k_ancestors(n):
                if a.get("k") == "Match":
                    hit = [arm["body"] for arm in a["arms"] if is_within(n, arm["body"])]
                    if hit:
                        scope = hit[0]
                        break
                if a.get("k") in ("For", "While", "Loop"):
                    scope = a["body"]
                    break
                if a.get("k") == "Closure":
                    scope = a["body"]["value"]
                    break
            base = peel_value(peel_value(n["recv"]).get("e", {})).get("lid")
            group = [m for m in walk(scope) if m.get("k") == "MethodCall" and m["name"] == "clear" and field_of(m["recv"]) == "decorators" and peel_value(peel_value(m["recv"]).get("e", {})).get("lid") == base]
            g0 = {id(x.orig) for x in guards_at(F, n, stop_at=scope) if x.kind == "cond"}
            bad, _ = must_pass(F, scope, lambda x, group=group: any(x is m for m in group), exit_kinds=("fallthrough", "return", "continue", "break"))
            bad = [(kd, nd) for kd, nd in bad if not (kd == "return" and ctor_of(peel(nd.get("e", {}))) == "std::result::Result::Err")]
            # declarations described by a context flag of the function (ambient declaration, overload
            # signature) cannot carry decorators in TypeScript: an early exit under such a flag is fine
            flag_lids = {p_.get("lid") for p_ in b["body"]["params"] if p_.get("lid") is not None and tyc(F, p_, "bool")}
            bad = [(kd, nd) for kd, nd in bad if not any(x.kind == "cond" and x.pol and peel(x.node).get("lid") in flag_lids for x in guards_at(F, nd, stop_at=scope, expand=False))]
            # paths that leave before the clear are fine only if the clear itself is conditional on the same test
            # (e.g. private members are rebuilt from scratch without decorators)
            if bad and g0:
                bad = [(kd, nd) for kd, nd in bad if not any(id(x.orig) in g0 for x in guards_at(F, nd, stop_at=scope) if x.kind == "cond")]
            R.ob("C10-e", "decorators of `%s` in %s are stripped on every path" % (expr_text(n["recv"])[:30], b["path"].split("::")[-1]), not bad,
                 "a path through %s leaves `%s` in place (%s): the emitted declaration keeps a decorator expression whose identifiers are not emitted" % (
                     b["path"].split("::")[-1], expr_text(n["recv"])[:40], ", ".join(kd for kd, _ in bad[:2])), where(n))
    R.floor("C10-e decorator strips", n_dc, 6)

    # ---------------- C10-g: which expressions may stay as they are ----------------
    # a super class / default-export expression is left in the output only if it is a
    # pure identifier chain; every part of the chain is inspected
    ie = F.body("fast_check::transform::is_expr_ident_or_member_idents")
    self_calls = [n for n in ie["_nodes"] if n.get("k") == "Call" and (n.get("fn") or "").endswith("is_expr_ident_or_member_idents")]
    mm = [n for n in ie["_nodes"] if n["k"] == "Match"]
    top = [m for m in mm if tyc(F, m["scrut"], "swc_ecma_ast::Expr") or tyc(F, m["scrut"], "::Expr")]
    ok_top = False
    if top:
        for arm in top[0]["arms"]:
            v, c = pat_variants(arm["pat"])
            names = {x.split("::")[-1] for x in v}
            if c and not v:
                ok_top = peel(arm["body"]).get("v") is False
    R.ob("C10-g", "anything that is not an identifier or member chain is rejected", bool(top) and ok_top, "the catch-all of is_expr_ident_or_member_idents no longer answers false", ie["file"])
    # obj of a member expression is inspected recursively
    obj_rec = [c for c in self_calls if any(x.get("k") == "Field" and x["field"] == "obj" for x in walk(c["args"][0]))]
    R.ob("C10-g", "the object of a member expression is inspected", len(obj_rec) == 1, "no recursive inspection of `n.obj`", ie["file"])
    # the property: Ident ok, PrivateName not, Computed only if its expression is itself a chain
    table = {}
    for m in mm:
        if not tyc(F, m["scrut"], "MemberProp"):
            continue
        ca = False
        for arm in m["arms"]:
            v, c = pat_variants(arm["pat"])
            ca = ca or c
            b_ = peel(arm["body"])
            for x in v:
                table[x.split("::")[-1]] = b_.get("v") if b_.get("k") == "Lit" else ("rec" if (b_ in self_calls or any(sc is b_ for sc in self_calls)) and any(y.get("k") == "Field" and y["field"] == "expr" for y in walk(b_)) else "?")
        table["_catch_all"] = ca
    R.ob("C10-g", "a computed member key is inspected recursively, a private name is rejected", table.get("Ident") is True and table.get("PrivateName") is False and table.get("Computed") == "rec" and table.get("_catch_all") is False,
         "is_expr_ident_or_member_idents treats member properties as %s: an arbitrary expression inside `obj[...]` (a call, an assignment) would be left in the emitted extends clause / default export instead of being diagnosed" % table, ie["file"])
    # and its result (for the object and the property) must both hold
    both = [n for n in ie["_nodes"] if n.get("k") == "Binary" and n["op"] == "&&" and any(is_within(c, n) for c in obj_rec)]
    R.ob("C10-g", "object and property of a member expression must both qualify", len(both) >= 1 and all(any(tyc(F, m["scrut"], "MemberProp") and is_within(m, b_) for m in mm) for b_ in both), "the member arm no longer requires both parts", ie["file"])
    sc = [n for n in F.all_nodes() if n.get("k") == "Call" and (n.get("fn") or "").endswith("is_expr_ident_or_member_idents") and n["_top"] is not ie]
    R.floor("C10-g users of the identifier-chain test", len(sc), 2)

    # ---------------- C10-h: an expression is left in place only if ALL its parts may be ----------
    ml = F.body(T + "maybe_transform_expr_if_leavable")
    def is_rec(n):
        # the local closure `recurse(..)` or a direct recursive call
        if n.get("k") == "Call":
            f_ = peel(n.get("f", {})) if "f" in n else {}
            if (n.get("fn") or "").endswith("maybe_transform_expr_if_leavable"):
                return True
            if f_.get("res") == "local" and any(mentions_call(y, [T + "maybe_transform_expr_if_leavable"]) for y in through_locals(f_)):
                return True
        if n.get("k") == "MethodCall" and (n.get("fn") or "").endswith("maybe_transform_expr_if_leavable"):
            return True
        return False
    recs = [n for n in ml["_nodes"] if is_rec(n)]
    R.floor("C10-h recursive inspections of sub-expressions", len(recs), 15)
    ors = [n for n in ml["_nodes"] if n.get("k") == "Binary" and n["op"] == "||" and any(is_within(r_, n) for r_ in recs)]
    R.ob("C10-h", "sub-expression verdicts are only ever combined with `&&`", not ors,
         "a composite expression is considered leavable when only one of its parts is (`%s`): the other part stays in the emitted declaration although it may contain calls / references to removed code" % (expr_text(ors[0])[:70] if ors else ""), where(ors[0]) if ors else "")
    negs = [n for n in ml["_nodes"] if n.get("k") == "Unary" and n["op"] == "!" and any(is_within(r_, n) for r_ in recs)]
    R.ob("C10-h", "a sub-expression verdict is never inverted", not negs, "`%s`" % (expr_text(negs[0])[:50] if negs else ""), where(negs[0]) if negs else "")

    # return-statement analysis: the whole analysis is only aborted once the verdict is final (Multiple)
    n_brk = 0
    for b in F.bodies:
        if not b["path"].startswith("fast_check::swc_helpers::analyze_return_stmts"):
            continue
        for n in b["_nodes"]:
            if ctor_of(n) == "std::ops::ControlFlow::Break" and n.get("k") == "Call":
                n_brk += 1
                blk = n
                while blk.get("_p") is not None and blk.get("k") != "Block":
                    blk = blk["_p"]
                ok = any(x.get("k") == "Assign" and (ctor_of(peel(x["r"])) or "").endswith("ReturnStatementAnalysis::Multiple") and may_reach(F, x, n) for x in walk(blk))
                R.ob("C10-f", "the return-statement analysis is aborted only after it reached its final verdict", ok,
                     "ControlFlow::Break(()) is produced in %s without the analysis having been set to Multiple: callers propagate it with `?`, so later `return <value>` statements are never seen and an un-annotated function is emitted as `: void` without a diagnostic" % b["path"].split("::")[-1], where(n))
    R.floor("C10-f abort sites of the return analysis", n_brk, 1)
    # destructured parameters never keep their binding elements
    hp = F.body(T + "handle_param_pat")
    for fld in ("elems", "props"):
        cl = [n for n in hp["_nodes"] if n.get("k") == "MethodCall" and n["name"] == "clear" and field_of(n["recv"]) == fld]
        R.floor("C10-f clears of destructuring %s" % fld, len(cl), 1)
        for c_ in cl:
            # the clear must not be conditional within its match arm
            arm = None
            for a_ in ancestors(c_):
                if "k" not in a_ and "pat" in a_ and "body" in a_:
                    arm = a_
                    break
            g = guards_at(F, c_, stop_at=arm) if arm else guards_at(F, c_)
            conds = [x for x in g if x.kind == "cond"]
            R.ob("C10-f", "a destructuring parameter pattern always loses its binding %s" % fld, not conds,
                 "`%s.clear()` only happens under %s: an untyped destructured parameter keeps its elements, including default expressions with calls" % (fld, [x.text()[:50] for x in conds]), where(c_))

    # ---------------- C10-f ------------------------------------------------
    diag_fns = set()
    for b in F.bodies:
        if any(callee_matches(n, [T + "mark_diagnostic"]) for n in b["_nodes"]):
            diag_fns.add(b["path"])
    n_tests = 0
    for b in F.bodies:
        if not b["path"].startswith(T):
            continue
        for n in b["_nodes"]:
            if not (n.get("k") == "MethodCall" and n.get("fn") == "std::option::Option::is_none"):
                continue
            r = peel_value(n["recv"])
            if not (r.get("k") == "Field" and r["field"] in ("type_ann", "return_type")):
                continue
            n_tests += 1
            # region taken when the type is missing
            region = None
            local = None
            p = n["_p"]
            holder = n
            while p is not None and p.get("k") in ("Unary", "Binary", "Block") and p.get("k") != "If":
                holder = p
                p = p["_p"]
            if p is not None and p.get("k") == "If" and is_within(n, p["cond"]):
                conds = []
                split_cond(p["cond"], True, conds)
                pos = any(x.holds(n) is True for x in conds)
                region = p["then"] if pos else p.get("else")
            elif p is not None and p.get("k") == "LetStmt" and p["pat"].get("pk") == "bind":
                local = p["pat"]["lid"]
            elif p is not None and "pat" in p and "body" in p and "k" not in p:
                # match arm value of `let missing = match kind { .. => x.is_none() }`
                q = p
                while q is not None and q.get("k") != "LetStmt":
                    q = q.get("_p")
                if q is not None and q["pat"].get("pk") == "bind":
                    local = q["pat"]["lid"]
            if local is not None:
                for u in b["_nodes"]:
                    if u["k"] == "If" and peel(u["cond"]).get("lid") == local:
                        region = u["then"]
            if region is None:
                R.ob("C10-f", "missing-type test in %s is followed" % b["path"].split("::")[-1], False, "cannot find the branch taken when `%s` is missing" % expr_text(r), where(n))
                continue
            has = any(callee_matches(x, [T + "mark_diagnostic"]) for x in walk(region)) or any((x.get("impl") or x.get("fn")) in diag_fns for x in walk(region) if x.get("k") in ("Call", "MethodCall"))
            R.ob("C10-f", "missing `%s` in %s leads to inference, a leavable initialiser or a diagnostic" % (r["field"], b["path"].split("::")[-1]), has,
                 "the branch taken when `%s` is missing contains no path to mark_diagnostic: an un-annotated declaration would be emitted without a type and without a diagnostic" % expr_text(r), where(n))
    R.floor("C10-f missing-type tests", n_tests, 3)


def _round6(F, R):
    # C10-a (arrows): with an explicit return type the arrow's body -- block *or*
    # expression -- is replaced on every path
    ta = [b for b in F.bodies if b["path"].endswith("FastCheckTransformer::transform_arrow")]
    if not R.ob("C10-a", "transform_arrow found", len(ta) == 1, "transform_arrow not found"):
        return
    ta = ta[0]
    n_reg = 0
    for fr in [n for n in ta["_nodes"] if n.get("k") == "Field" and n["field"] == "return_type" and (n.get("adt") or "").endswith("ArrowExpr")]:
        for binds, region in matched_regions(fr):
            if not region:
                continue
            n_reg += 1

            def is_body_write(x):
                return x.get("k") == "Assign" and any(y.get("k") == "Field" and y["field"] == "body" for y in walk(x["l"])) and peel(x["l"]).get("k") == "Field"
            bad = []
            for r_ in region[:1]:
                b_, _ = must_pass(F, r_, is_body_write, exit_kinds=("fallthrough", "return"))
                bad += b_
            R.ob("C10-a", "an arrow function with an explicit return type has its body replaced on every path", not bad,
                 "a path through transform_arrow keeps the original body although the return type is explicit (e.g. only a block body is emptied): `(v: string): void => sideEffect(v)` is emitted with its executable expression",
                 where(bad[0][1]) if bad else "", key="C10|C10-a|arrow-body-kept")
    R.floor("C10-a explicit-return-type branch of transform_arrow", n_reg, 1)
