"""C19 — incremental builds and reloads converge to the from-scratch graph.

Decides:
  a. restart only from an empty graph: the graph reset happens only in
     `restart`; `restart` is only reached under the restart request of
     resolve_pending, which can be true only while fill_pass_mode ==
     AllowRestart; AllowRestart is assigned only when the graph had no roots;
     `restart` switches to CacheBusting (so it cannot restart again).
  b. known roots / imports are filtered before they are loaded, the graph's
     roots are extended with the new ones, and exactly the filtered roots are
     loaded as roots.
  c. reload evicts the slot before loading it again (otherwise the
     existing-slot short-circuit makes reload a no-op), resolves redirects
     first, and never touches other slots.
"""
from .lib import *
from .lib import _tail_values

EXPLANATION = "Who-may-reset the graph and guard dominance of the restart path (T3/T5), provenance of the roots / imports that Builder::build loads (T4), ordering of evict-then-load in Builder::reload (T2)."
EXPLANATION += " " + 'Plus: every value of the reload mapping is the redirect-resolved specifier.'
NOT_DECIDED = "convergence over arbitrary histories of builds and edits"
CONFIGS = ["default", "nofastcheck"]  # thorough tier also analyses the build without fast_check / symbols
ASSUMPTIONS = []


def run(F, R, tier):
    _round6(F, R)
    # ---------------- C19-a ------------------------------------------------
    resets = []
    for n in F.all_nodes():
        if n["_top"].get("derived") or n["_top"]["file"] != "src/graph.rs":
            continue
        if n["k"] == "Assign":
            l = peel(n["l"])
            r = peel(n["r"])
            if (F.ty(n["l"]) or "") == "graph::ModuleGraph" and callee_matches(r, ["ModuleGraph::new"]):
                resets.append(n)
    R.floor("C19-a graph resets", len(resets), 1)
    for r in resets:
        R.ob("C19-a", "the graph is reset only inside Builder::restart", r["_top"]["path"] == "graph::Builder::restart", "`*graph = ModuleGraph::new(..)` in %s: an existing graph's entries would be discarded" % r["_top"]["path"], where(r))
    rs = F.body("graph::Builder::restart")
    cb = [n for n in rs["_nodes"] if n["k"] == "Assign" and field_of(n["l"]) == "fill_pass_mode" and ctor_of(peel(n["r"])) == "graph::FillPassMode::CacheBusting"]
    bad, _ = must_pass(F, rs["body"]["value"], lambda n: n in cb)
    R.ob("C19-a", "restart switches to CacheBusting on every path (no second restart)", len(cb) == 1 and not bad, "restart does not set fill_pass_mode = CacheBusting", rs["file"])
    st = [n for n in rs["_nodes"] if n["k"] == "Assign" and field_of(n["l"]) == "state"]
    R.ob("C19-a", "restart discards the pending state together with the graph", len(st) == 1, "pending state survives a restart", rs["file"])
    callers = [n for n in F.all_nodes() if callee_matches(n, ["Builder::restart"])]
    R.floor("C19-a callers of restart", len(callers), 1)
    for c in callers:
        g = guards_at(F, c)
        ok = c["_top"]["path"] == "graph::Builder::build" and any(x.kind == "cond" and x.pol and any(mentions_call(y, ["Builder::resolve_pending"]) for y in through_locals(x.node)) for x in g) and len([x for x in g if x.kind == "cond" and not x.derived]) == 1
        R.ob("C19-a", "restart is only reached when resolve_pending asked for it", ok, "restart called from %s under %s" % (c["_top"]["path"], [x.text() for x in g]), where(c))
    # true returns of resolve_pending / resolve_pending_jsr_specifiers
    rpj = F.body("graph::Builder::resolve_pending_jsr_specifiers")
    trues = [n for n in rpj["_nodes"] if n["k"] == "Ret" and peel(n.get("e", {})).get("v") is True]
    R.floor("C19-a restart requests", len(trues), 1)
    for t in trues:
        g = guards_at(F, t)
        ok = any(x.kind == "cond" and x.pol and x.node.get("k") == "Binary" and x.node["op"] == "==" and mentions_field(x.node["l"], "fill_pass_mode") and ctor_of(peel(x.node["r"])) == "graph::FillPassMode::AllowRestart" for x in g)
        R.ob("C19-a", "a restart is requested only in AllowRestart mode", ok, "`return true` guarded by %s" % [x.text()[:60] for x in g if x.kind == "cond"], where(t))
    vals = return_values(F, rpj)
    R.ob("C19-a", "the only other answer is `false`", all(peel(v).get("k") == "Lit" for v in vals), "non-literal restart answer", rpj["file"])
    rp = F.body("graph::Builder::resolve_pending")
    rt = [n for n in rp["_nodes"] if n["k"] == "Ret" and peel(n.get("e", {})).get("v") is True]
    for t in rt:
        g = guards_at(F, t)
        ok = any(x.kind == "cond" and x.pol and any(mentions_call(y, ["Builder::resolve_pending_jsr_specifiers"]) for y in through_locals(x.node)) for x in g)
        R.ob("C19-a", "resolve_pending forwards only the jsr resolver's restart request", ok, "`return true` in resolve_pending under %s" % [x.text() for x in g], where(t))
    allow = [n for n in F.all_nodes() if ctor_of(n) == "graph::FillPassMode::AllowRestart" and n["k"] == "Path" and not n["_top"].get("derived")]
    prod = [n for n in allow if not any(a.get("k") == "Binary" for a in k_ancestors(n)) and n["_p"].get("k") != "Pat"]
    R.floor("C19-a producers of AllowRestart", len(prod), 1)
    for p in prod:
        g = guards_at(F, p)
        ok = False
        if p["_top"]["path"] == "graph::Builder::new":
            for x in g:
                if x.kind == "pat" and x.pol and pat_text(x.pat) == "True":
                    atoms = []
                    split_cond(x.scrut, True, atoms)
                    if any(a.kind == "cond" and a.pol and a.node.get("k") == "MethodCall" and a.node["name"] == "is_empty" and peel(a.node["recv"]).get("field") == "roots" for a in atoms):
                        ok = True
                elif x.kind == "cond" and x.pol and x.node.get("k") == "MethodCall" and x.node["name"] == "is_empty" and peel(x.node["recv"]).get("field") == "roots":
                    ok = True
        R.ob("C19-a", "AllowRestart is chosen only for a graph without roots", ok, "AllowRestart produced in %s under %s" % (p["_top"]["path"], [x.text()[:50] for x in g]), where(p))

    # ---------------- C19-b ------------------------------------------------
    bd = F.body("graph::Builder::build")
    fors = [n for n in bd["_nodes"] if n["k"] == "For" and any(callee_matches(x, ["Builder::load"]) for x in walk(n["body"]))]
    if R.ob("C19-b", "root loading loop found", len(fors) == 1, "shape changed", bd["file"]):
        it = peel_value(fors[0]["iter"])
        ok = False
        src = None
        if it.get("res") == "local":
            for d in local_defs(bd, it["lid"]):
                if d[0] == "let":
                    src = d[1]
        if src is not None:
            flt = [x for x in walk(src) if x.get("k") == "MethodCall" and x["name"] == "filter"]
            if flt:
                clo = peel(flt[0]["args"][0])
                conds = []
                split_cond(clo["body"]["value"], True, conds)
                ok = any(x.kind == "cond" and not x.pol and x.node.get("k") == "MethodCall" and x.node["name"] == "contains" and peel(x.node["recv"]).get("field") == "roots" for x in conds)
        R.ob("C19-b", "only roots the graph does not have yet are loaded", ok, "loaded roots are `%s`" % (expr_text(src)[:80] if src else expr_text(fors[0]["iter"])), where(fors[0]))
        ext = [n for n in bd["_nodes"] if n.get("k") == "MethodCall" and n["name"] == "extend" and field_of(n["recv"]) == "roots"]
        R.ob("C19-b", "the new roots are added to the graph's roots", len(ext) == 1 and peel_value(ext[0]["args"][0]).get("lid") == it.get("lid"), "graph.roots not extended with the filtered roots", bd["file"])
        st = [s for s in walk(fors[0]["body"]) if s.get("k") == "Struct" and s.get("adt") == "graph::LoadOptionsRef"]
        if st:
            f = {x["name"]: peel(x["e"]) for x in st[0]["fields"]}
            R.ob("C19-b", "roots are loaded as roots, without referrer", f["is_root"].get("v") is True and ctor_of(f["maybe_range"]) == "std::option::Option::None", "root load options changed", where(st[0]))
    hp = [n for n in bd["_nodes"] if callee_matches(n, ["Builder::handle_provided_imports"])]
    ok = False
    if len(hp) == 1:
        a = peel_value(hp[0]["args"][0])
        if a.get("res") == "local":
            for d in local_defs(bd, a["lid"]):
                if d[0] == "let":
                    flt = [x for x in walk(d[1]) if x.get("k") == "MethodCall" and x["name"] == "filter"]
                    if flt:
                        clo = peel(flt[0]["args"][0])
                        conds = []
                        split_cond(clo["body"]["value"], True, conds)
                        ok = any(x.kind == "cond" and not x.pol and x.node.get("name") == "contains_key" and peel(x.node["recv"]).get("field") == "imports" for x in conds)
    R.ob("C19-b", "only configured imports the graph does not have yet are processed", ok, "imports are not filtered by !graph.imports.contains_key(referrer)", bd["file"])
    if fors:
        bad, _ = must_pass(F, fors[0]["body"], lambda n: callee_matches(n, ["Builder::load"]), exit_kinds=("fallthrough", "continue", "break", "return"))
        R.ob("C19-b", "every new root is handed to the loader (which decides about existing slots itself)", not bad,
             "an iteration of the root loop can skip Builder::load: a new root whose slot exists only as an external asset entry would never be loaded as a module", where(bad[0][1]) if bad else "")
    rq = F.body("graph::Builder::resolve_pending_jsr_specifiers")
    pops = [n for n in rq["_nodes"] if n.get("k") == "MethodCall" and n["name"] == "pop_front" and tyc(F, n["recv"], "VecDeque<graph::PendingJsrReqResolutionItem>")]
    requeue = [n for n in rq["_nodes"] if n.get("k") == "MethodCall" and n["name"] in ("push_front", "push_back") and tyc(F, n["recv"], "VecDeque<graph::PendingJsrReqResolutionItem>") and any(peel(x.get("recv", {})).get("lid") == peel(n["recv"]).get("lid") for x in pops)]
    R.ob("C19-b", "a requirement retried after a metadata reload keeps its place in the resolution order", len(pops) == 1 and len(requeue) == 1 and requeue[0]["name"] == "push_front",
         "the retried requirement is re-queued with %s: it would be resolved after the requirements that followed it, and version unification (order dependent) differs from a from-scratch build" % ([r_["name"] for r_ in requeue] or "nothing"), rq["file"])
    for nm in ("Builder::handle_provided_imports", "Builder::resolve_pending"):
        bad, _ = must_pass(F, bd["body"]["value"], lambda n, nm=nm: callee_matches(n, [nm]))
        R.ob("C19-b", "every build passes %s (also when no new root was given)" % nm.split("::")[-1], not bad,
             "a path returns from Builder::build before %s: a later build that adds only configured imports (or nothing) would skip them" % nm.split("::")[-1], where(bad[0][1]) if bad else "")

    # ---------------- C19-c ------------------------------------------------
    rl = F.body("graph::Builder::reload")
    fors = [n for n in rl["_nodes"] if n["k"] == "For" and any(callee_matches(x, ["Builder::load"]) for x in walk(n["body"]))]
    if R.ob("C19-c", "reload loop found", len(fors) == 1, "shape changed", rl["file"]):
        lp = fors[0]
        var = pat_bindings(lp["pat"])[0]["lid"]
        rm = [n for n in walk(lp["body"]) if n.get("k") == "MethodCall" and n["name"] == "remove" and field_of(n["recv"]) == "module_slots"]
        ld = [n for n in walk(lp["body"]) if callee_matches(n, ["Builder::load"])]
        ok = len(rm) == 1 and len(ld) == 1 and peel_value(rm[0]["args"][0]).get("lid") == var and may_reach(F, rm[0], ld[0], scope=lp["body"]) and not may_reach(F, ld[0], rm[0], scope=lp["body"])
        R.ob("C19-c", "the stale entry is evicted before the specifier is loaded again", ok,
             "reload does not remove the slot of the reloaded specifier before calling load: the existing-slot short-circuit turns the reload into a no-op", where(lp))
        bad, _ = must_pass(F, lp["body"], lambda n: n in rm, exit_kinds=("fallthrough", "continue", "break", "return"))
        R.ob("C19-c", "eviction happens on every path", not bad, "a path through the reload loop skips module_slots.remove", where(lp))
        if ld:
            st = [s for s in walk(ld[0]) if s.get("k") == "Struct" and s.get("adt") == "graph::LoadOptionsRef"]
            if st:
                f = {x["name"]: x["e"] for x in st[0]["fields"]}
                R.ob("C19-c", "the evicted specifier is the one reloaded", peel_value(f["specifier"]).get("lid") == var, "reloads `%s`" % expr_text(f["specifier"]), where(ld[0]))
        others = [n for n in rl["_nodes"] if n.get("k") == "MethodCall" and n["name"] in ("clear", "retain", "remove") and field_of(n["recv"]) in ("module_slots", "redirects") and n not in rm]
        R.ob("C19-c", "reload alters no other entry", not others, "reload also does `%s`" % (expr_text(others[0]) if others else ""), rl["file"])
        it = peel_value(lp["iter"])
        ok = False
        if it.get("res") == "local":
            for d in local_defs(rl, it["lid"]):
                if d[0] == "let" and any(callee_matches(x, ["ModuleGraph::resolve"]) for x in walk(d[1])):
                    ok = True
        R.ob("C19-c", "reload targets the redirect-resolved specifiers", ok, "reload no longer resolves redirects of the requested specifiers", rl["file"])
        # every value the mapping yields is the resolved specifier (the requested
        # one only where both are equal)
        for rs in [x for x in rl["_nodes"] if callee_matches(x, ["ModuleGraph::resolve"])]:
            clos = [a for a in k_ancestors(rs) if a.get("k") == "Closure"]
            if not clos:
                continue
            cl = clos[0]
            plids = {b_["lid"] for p_ in cl["body"]["params"] for b_ in (pat_bindings(p_) if p_.get("k") == "Pat" else [p_]) if b_.get("lid") is not None}
            vals = []
            _tail_values(F, cl["body"]["value"], vals)
            for v in vals:
                pv = peel_value(v)
                from_resolve = any(y is rs or is_within(rs, y) for y in through_locals(pv))
                same = False
                if pv.get("lid") in plids:
                    for x in guards_at(F, v, stop_at=cl):
                        if x.kind == "cond" and x.pol and x.node.get("k") == "Binary" and x.node["op"] == "==":
                            sides = [peel_value(x.node["l"]), peel_value(x.node["r"])]
                            if any(sd.get("lid") in plids for sd in sides) and any(any(y is rs or is_within(rs, y) for y in through_locals(sd)) for sd in sides):
                                same = True
                R.ob("C19-c", "reload maps every requested specifier to its redirect-resolved form", from_resolve or same,
                     "the reload mapping yields `%s`, which is not the result of graph.resolve(..) (nor the requested specifier under `resolved == requested`): a reloaded alias evicts and reloads the wrong entry" % expr_text(v)[:40], where(v))
    for l in [s_ for s_ in rl["_nodes"] if s_.get("k") == "Struct" and s_.get("adt") == "graph::LoadOptionsRef"]:
        f = {x["name"]: peel(x["e"]) for x in l["fields"]}
        R.ob("C19-c", "a reloaded specifier is loaded like a root (no referrer, is_root)", f["is_root"].get("v") is True and ctor_of(f["maybe_range"]) == "std::option::Option::None" and ctor_of(f["maybe_attribute_type"]) == "std::option::Option::None",
             "reload loads with is_root = %s: without referrer and attribute only a root is accepted for attribute-dependent media types (a reloaded JSON dependency would become an error entry)" % expr_text(f["is_root"]), where(l))
    aw = [n for n in rl["_nodes"] if callee_matches(n, ["Builder::resolve_pending"])]
    R.ob("C19-c", "reload drains the loads it queued", len(aw) == 1, "reload does not await resolve_pending", rl["file"])


def _round6(F, R):
    # C19-r: when a restart is not allowed, stale registry metadata is refreshed
    # once *per package*: the memo that stops a second refresh is a set keyed by
    # the package name and lives across the whole drain loop
    rp = F.body("graph::Builder::resolve_pending_jsr_specifiers")
    memo = [n for n in rp["_nodes"] if n.get("k") == "MethodCall" and n["name"] in ("insert", "contains") and peel(n["recv"]).get("res") == "local"
            and tyc(F, n["recv"], "HashSet<deno_semver::StackString") and any(c.get("k") == "If" and is_within(n, c["cond"]) for c in k_ancestors(n))]
    loads = [n for n in rp["_nodes"] if callee_matches(n, ["JsrMetadataStore::queue_load_package_info", "queue_load_package_info"])]
    forced = []
    for n in loads:
        if any(ctor_of(peel(y)) == "source::CacheSetting::Reload" or (y.get("k") == "Path" and str(y.get("path", "")).endswith("CacheSetting::Reload")) for y in walk(n)):
            forced.append(n)
    if not forced:
        R.note("C19-r: no forced metadata reload found in resolve_pending_jsr_specifiers (rule not applicable)")
        return
    for n in forced:
        g = guards_at(F, n)
        per_pkg = [x for x in g if x.kind == "cond" and x.pol and x.node.get("k") == "MethodCall" and x.node["name"] == "insert" and tyc(F, x.node["recv"], "HashSet<")]
        ok = bool(per_pkg)
        outside = False
        if per_pkg:
            lid = peel(per_pkg[0].node["recv"]).get("lid")
            defs = [d for d in local_defs(rp, lid) if d[0] in ("let", "letpat", "let_uninit")]
            lps = [a for a in k_ancestors(n) if a.get("k") in ("While", "Loop", "For")]
            outside = bool(defs) and bool(lps) and all(not is_within(d[3], lps[-1]) for d in defs)
        R.ob("C19-r", "a forced metadata refresh is memoised per package across the whole drain loop", ok and outside,
             "the forced `meta.json` reload in NoRestart mode is not guarded by a per-package set that outlives the loop (%s): either only the first stale package of a pass is refreshed (the others become not-found errors a from-scratch build does not have) or an unsatisfiable requirement is reloaded forever" % ("no set-insert guard" if not ok else "the set is created inside the loop"),
             where(n), key="C19|C19-r|forced-refresh-memo")
