"""C01 — a built graph is exactly the dependency closure of its roots.

Runtime equality of graphs is out of reach; decided structural clauses:
  a. dedup before load: in load_with_redirect_count every load / slot creation
     lies after the existing-slot check, and that check only falls through to a
     new load for an external asset that is now needed as a module.
  b. every loader redirect is recorded (check_specifier before visit / before
     the error is stored) — shared with C03-c.
  c. every edge field has a loader: each Resolution-typed field reachable from
     a module (code, type, types dependency, source map, configured imports) is
     matched against Resolution::Ok and, on every path of that branch, flows
     into Builder::load or into the dynamic-branch queue, under the graph-kind
     gate the walk uses; dynamic-branch entries are all re-issued.
  d. static wins: every write to Dependency::is_dynamic is the first-import
     initialisation, the conjunction with the current value, or `false`; a
     parked dynamic branch's asset flag only ever moves to `false`.
  e. kind gating of the builder agrees with the walker.
  f. every field of the analysis result (ModuleInfo, the dependency descriptors,
     specifier-with-range, JSDoc import info) is consumed by the graph builder;
     media type dispatch has no catch-all, JS/TS modules are analysed on exactly
     the stored text / media type, failures become error entries.
"""
from .lib import *
from .lib import _tail_values

EXPLANATION = (
    "Must-pass-through of the existing-slot check before every load in load_with_redirect_count (T2/T5), coverage of every "
    "Resolution-typed edge field by a loader site in visit_module / visit_module_dependencies / handle_provided_imports (T1), "
    "value provenance of every write to Dependency::is_dynamic and PendingDynamicBranch::is_asset (T4), and the gating "
    "conditions of each edge kind compared with the walker (T12)."
)
EXPLANATION += " " + "Further decision-point rules found by seeded changes and the machine-generated sweep: precedence of the sources of a module's types dependency, which Import records are dynamic, type resolutions written only when the kind includes types, descriptor / dependency loops never stop early, a redirected load keeps the request's context, resolved_roots only for root requests, and the dependency collector's handler coverage (shared with C08)."
NOT_DECIDED = "that recorded specifier text / attributes / resolved targets equal what the source declares under an arbitrary resolver; media-type dispatch outcomes; that nothing unreachable is present"
CONFIGS = ["default", "nofastcheck"]  # thorough tier also analyses the build without fast_check / symbols
ASSUMPTIONS = []

EDGE_FIELDS = {
    ("graph::Dependency", "maybe_code"),
    ("graph::Dependency", "maybe_type"),
    ("graph::JsModule", "maybe_types_dependency"),
    ("graph::JsModule", "maybe_source_map_dependency"),
}


def is_dynamic_writes(F, R, tag="C01-d"):
    """every write to Dependency::is_dynamic keeps `static wins`, and only code imports take part"""
    writes = [n for n in F.all_nodes() if not n["_top"].get("derived") and n["k"] in ("Assign", "AssignOp") and peel(n["l"]).get("k") == "Field" and peel(n["l"])["field"] == "is_dynamic" and peel(n["l"]).get("adt") == "graph::Dependency"]
    R.floor(tag + " writes to Dependency::is_dynamic", len(writes), 2)
    for w in writes:
        r = peel(w["r"])
        tgt = expr_text(peel(w["l"])["e"])
        kind = None
        if r.get("k") == "Lit" and r.get("v") is False:
            kind = "false"
        elif r.get("k") == "Field" and r["field"] == "is_dynamic" and r.get("adt") != "graph::Dependency":
            # first code import: must be under `dep.maybe_code.is_none()`
            g = guards_at(F, w)
            if any(x.kind == "cond" and x.pol and x.node.get("k") == "MethodCall" and x.node["name"] == "is_none" and "maybe_code" in expr_text(x.node["recv"]) for x in g):
                kind = "first-import"
        elif r.get("k") == "Binary" and r["op"] == "&&":
            l_, r_ = peel(r["l"]), peel(r["r"])
            if any(x.get("k") == "Field" and x["field"] == "is_dynamic" and x.get("adt") == "graph::Dependency" and expr_text(x["e"]) == tgt for x in (l_, r_)):
                kind = "conjunction"
        if kind in ("first-import", "conjunction") and any(x.get("k") == "Field" and x["field"] == "is_dynamic" and x.get("adt") != "graph::Dependency" for x in walk(w["r"])):
            g = guards_at(F, w)
            code_only = any(x.kind == "pat" and not x.pol and "ImportKind::TsType" in pat_text(x.pat) for x in g)
            R.ob(tag, "only code imports decide static-versus-dynamic", code_only,
                 "`%s` also runs for type-only imports (not under the failure of `matches!(import.kind, TsType | TsModuleAugmentation)`): a type reference would turn a dynamic code edge static in a full build, but not in a code-only build of the same sources" % expr_text(w)[:60], where(w))
        R.ob(tag, "write `%s` keeps static-wins" % expr_text(w)[:70], kind is not None,
             "Dependency::is_dynamic is assigned `%s`, which is neither the first-import initialisation, `current && import.is_dynamic`, nor false: a specifier imported statically and dynamically could end up dynamic" % expr_text(w["r"]), where(w))


def import_literals(F, R, tag="C01-d"):
    """an Import record is dynamic exactly when it comes from a dynamic
    descriptor; synthetic imports (triple-slash references, JSX import source,
    JSDoc imports, module augmentations) are static"""
    lits = [n for n in F.all_nodes() if n["k"] == "Struct" and n.get("adt") == "graph::Import" and not n["_top"].get("derived") and n["_top"]["file"] == "src/graph.rs" and "::tests::" not in n["_top"]["path"] and "::test" not in n["_top"]["path"]]
    R.floor(tag + " Import literals", len(lits), 6)
    for l in lits:
        f = {x["name"]: peel(x["e"]) for x in l["fields"]}
        if "is_dynamic" not in f:
            continue
        dyn_ctx = any(x.kind == "pat" and x.pol and "DependencyDescriptor::Dynamic" in pat_text(x.pat) for x in guards_at(F, l, stop_at_async=False))
        v = f["is_dynamic"]
        ok = v.get("k") == "Lit" and v.get("v") is dyn_ctx
        R.ob(tag, "Import built %s is %s" % ("from a dynamic descriptor" if dyn_ctx else "from a static descriptor / pragma / comment", "dynamic" if dyn_ctx else "static"), ok,
             "Import { is_dynamic: %s } %s: the first code import initialises Dependency::is_dynamic from this flag, so the edge would be treated as %s" % (
                 expr_text(v), "under a dynamic descriptor" if dyn_ctx else "for a static form", "static" if dyn_ctx else "dynamic (skipped with skip_dynamic_deps, loaded after all static loads)"), where(l))


def type_writes_gated(F, R, tag="C01-e"):
    """type resolutions are recorded only when the graph kind includes types (a
    code-only build records none, which is what prune_types reproduces)"""
    inc = lambda x: x.kind == "cond" and x.pol and (x.node.get("fn") or "").endswith("GraphKind::include_types")
    TYPE_KINDS = ("graph::ImportKind::TsType", "graph::ImportKind::TsModuleAugmentation")
    n_w = 0
    for fn in ("graph::parse_js_module_from_module_info", "graph::fill_module_dependencies"):
        b = F.body(fn)
        # type-only import kinds are only produced when types are included
        for n in b["_nodes"]:
            if ctor_of(n) in TYPE_KINDS and n.get("k") == "Path" and not any(a.get("k") in ("Pat",) for a in k_ancestors(n)) and n.get("_role") != "pat":
                par = n.get("_p") or {}
                if par.get("k") == "Binary" and par["op"] in ("==", "!="):
                    continue  # a comparison, not a construction
                if "matches" in (n.get("mac") or []):
                    continue
                R.ob(tag, "a %s import is only produced when types are included" % ctor_of(n).split("::")[-1], any(inc(x) for x in guards_at(F, n)),
                     "%s is produced without `graph_kind.include_types()`: a code-only graph would record type-only imports" % ctor_of(n).split("::")[-1], where(n))
        for n in b["_nodes"]:
            if n["k"] == "Assign" and field_of(n["l"]) in ("maybe_type", "maybe_types_dependency", "maybe_deno_types_specifier"):
                r_ = peel(n["r"])
                if ctor_of(r_) in ("std::option::Option::None", "graph::Resolution::None"):
                    continue
                n_w += 1
                g = guards_at(F, n)
                ok = any(inc(x) for x in g) or any(x.kind == "pat" and x.pol and any(k_ in pat_text(x.pat) for k_ in TYPE_KINDS) and not any(k_ in pat_text(x.pat) for k_ in ("ImportKind::Es", "ImportKind::Require")) for x in g)
                R.ob(tag, "`%s` in %s is written only when types are included" % (field_of(n["l"]), fn.split("::")[-1]), ok,
                     "`%s = ..` is not under `graph_kind.include_types()` (nor specific to a type-only import kind): a code-only build would record a type resolution and follow it, so it differs from the pruned full build and loads modules only types need" % expr_text(n["l"])[:40], where(n))
    R.floor(tag + " writes of type resolutions", n_w, 12)


def type_import_tests(F, R, tag="C01-e"):
    """tests for `this import is type-only` compare with `==` (the resolution-mode attribute is
    honoured for type imports and declaration files only)"""
    b = F.body("graph::fill_module_dependencies")
    cmp_ = [n for n in b["_nodes"] if n.get("k") == "Binary" and n["op"] in ("==", "!=") and any(ctor_of(peel(n[s_])) == "graph::ImportKind::TsType" for s_ in ("l", "r"))]
    for n in cmp_:
        par = n.get("_p") or {}
        neg = par.get("k") == "Unary" and par.get("op") == "!"
        R.ob(tag, "`is this a type-only import` is decided positively", (n["op"] == "==") != neg,
             "`%s`: the type-only test is inverted, so `resolution-mode` import attributes are applied to code imports and ignored on type imports (the resolver is then asked with the wrong mode)" % expr_text(n), where(n))
    R.floor(tag + " type-only tests", len(cmp_), 1)


def descriptor_loops_complete(F, R, tag="C01-c"):
    """every declared reference is processed: the loops that turn ModuleInfo
    lists into dependencies have no early `break` / `return`"""
    n_l = 0
    for fn in ("graph::parse_js_module_from_module_info", "graph::fill_module_dependencies", "graph::Builder::visit_module_dependencies"):
        b = F.body(fn)
        for lp in [n for n in b["_nodes"] if n["k"] == "For"]:
            it = lp["iter"]
            if not (any(tyc(F, y, "analysis::") for y in walk(it)) or any(x.get("k") == "Field" and x["field"] in ("ts_references", "jsdoc_imports", "dependencies") for x in walk(it)) or tyc(F, it, "graph::Dependency")):
                continue
            n_l += 1
            early = []
            for x in walk(lp["body"]):
                if x.get("k") in ("Break", "Ret"):
                    inner = [a for a in k_ancestors(x) if a.get("k") in ("For", "While", "Loop", "Closure") and is_within(a, lp["body"])]
                    if x["k"] == "Break" and inner:
                        continue
                    if x["k"] == "Ret" and any(a.get("k") == "Closure" for a in inner):
                        continue
                    early.append(x)
            R.ob(tag, "every entry of `%s` is processed" % expr_text(it)[:40], not early,
                 "the loop over `%s` in %s can stop early (`%s`): references declared after that point would not be recorded as dependencies" % (expr_text(it)[:40], fn.split("::")[-1], expr_text(early[0])[:20] if early else ""), where(early[0]) if early else "")
    R.floor(tag + " descriptor loops", n_l, 4)


def run(F, R, tier):
    lw = F.body("graph::Builder::load_with_redirect_count")
    # ---------------- C01-a ------------------------------------------------
    dedup = [n for n in lw["_nodes"] if n["k"] == "If" and n["cond"].get("k") == "Let" and any(x.get("k") == "MethodCall" and x["name"] == "get" and field_of(x["recv"]) == "module_slots" for x in walk(n["cond"]["init"]))]
    if R.ob("C01-a", "existing-slot check found", len(dedup) == 1, "load_with_redirect_count no longer tests `module_slots.get(specifier)` before loading", lw["file"]):
        dd = dedup[0]
        starters = ["Builder::load_pending_module", "Builder::load_jsr_subpath", "Builder::load_jsr_specifier", "Builder::load_npm_specifier"]
        sites = [n for n in lw["_nodes"] if callee_matches(n, starters)]
        sites += [n for n in lw["_nodes"] if n.get("k") == "MethodCall" and n["name"] == "insert" and field_of(n["recv"]) == "module_slots" and any(ctor_of(x) == "graph::ModuleSlot::Module" for x in walk(n))]
        R.floor("C01-a load / slot-creation sites", len(sites), 6)
        fl = Flow(F, is_target=lambda n: n is dd["cond"], probe=lambda n: n in sites)
        fl.run(lw["body"]["value"], False)
        seen = {id(n) for n, _ in fl.probes}
        for sname, s in [(expr_text(x)[:50], x) for x in sites]:
            sts = [st for n, st in fl.probes if n is s]
            R.ob("C01-a", "`%s` happens only after the existing-slot check" % sname, bool(sts) and all(st is True for st in sts),
                 "a load / slot creation is reachable without first consulting module_slots: a specifier imported twice would be loaded twice or overwrite its entry", where(s))
        # key of the check is the (redirect-resolved) specifier that is then loaded
        # then-branch: falls through only when should_reload_immediately
        last = dd["then"].get("expr") or (dd["then"]["stmts"][-1] if dd["then"]["stmts"] else None)
        inner = last.get("e", last) if last else {}
        ok = False
        if inner.get("k") == "If":
            conds = []
            split_cond(inner["cond"], True, conds)
            ok = any(x.kind == "cond" and not x.pol and any(mentions_call(y, ["ModuleSlot::was_external_asset_load"]) for y in through_locals(x.node)) for x in conds) and diverges(F, inner["then"]) and "else" not in inner
        R.ob("C01-a", "an existing slot short-circuits unless it must be reloaded immediately", ok,
             "the existing-slot branch can fall through to a new load for slots that need no reload", where(dd))
        sr = [n for n in walk(dd["then"]) if n.get("k") == "LetStmt" and "init" in n and mentions_call(n["init"], ["ModuleSlot::was_external_asset_load"])]
        if R.ob("C01-a", "should_reload_immediately defined", len(sr) == 1, "shape changed", where(dd)):
            conds = []
            split_cond(sr[0]["init"], True, conds)
            ok = any(x.kind == "cond" and x.pol and (x.node.get("fn") or "").endswith("ModuleSlot::was_external_asset_load") for x in conds) and any(x.kind == "cond" and not x.pol and expr_text(x.node).endswith("is_asset") for x in conds) and len(conds) == 2
            R.ob("C01-a", "reload only for an external asset now imported as a module", ok, "should_reload_immediately = %s" % expr_text(sr[0]["init"]), where(sr[0]))
    # the redirect table is consulted first
    rd = [n for n in lw["_nodes"] if n.get("k") == "MethodCall" and n["name"] == "get" and field_of(n["recv"]) == "redirects"]
    R.ob("C01-a", "known redirects are applied before the slot lookup", len(rd) == 1 and bool(dedup) and may_reach(F, rd[0], dedup[0]), "load_with_redirect_count does not map the specifier through graph.redirects first", lw["file"])

    # ---------------- C01-b ------------------------------------------------
    rp = F.body("graph::Builder::resolve_pending")
    chk = [n for n in rp["_nodes"] if callee_matches(n, ["Builder::check_specifier"])]
    R.ob("C01-b", "both result arms record the redirect", len(chk) == 2, "check_specifier called %d time(s) in resolve_pending" % len(chk), rp["file"])
    for c in chk:
        a0, a1 = peel_value(c["args"][0]), peel_value(c["args"][1])
        ok = a0.get("res") == "local" and tyc(F, a0, "url::Url") and a1.get("k") == "MethodCall" and a1["name"] == "specifier" and peel_value(a1["recv"]).get("res") == "local"
        R.ob("C01-b", "redirect is recorded from the requested to the answered specifier", ok, "check_specifier(%s, %s)" % (expr_text(c["args"][0]), expr_text(c["args"][1])), where(c))
    cs = F.body("graph::Builder::check_specifier")
    ar = [n for n in cs["_nodes"] if callee_matches(n, ["Builder::add_redirect"])]
    ok = False
    if len(ar) == 1:
        g = guards_at(F, ar[0])
        ok = any(x.kind == "cond" and x.pol and x.node.get("k") == "Binary" and x.node["op"] == "!=" and all(tyc(F, x.node[s_], "url::Url") for s_ in ("l", "r")) for x in g) and len([x for x in g if x.kind == "cond" and not x.derived]) == 1
    R.ob("C01-b", "a redirect is added exactly when the answered specifier differs", ok, "check_specifier guard changed", cs["file"])
    adr = F.body("graph::Builder::add_redirect")
    ent = [n for n in adr["_nodes"] if n.get("k") == "MethodCall" and n["name"] == "entry" and field_of(n["recv"]) == "redirects"]
    bad, _ = must_pass(F, adr["body"]["value"], lambda n: n in ent)
    R.ob("C01-b", "add_redirect always records the redirect", len(ent) == 1 and not bad, "a path through add_redirect records nothing", adr["file"])

    # a load that the loader redirected continues with the context of the
    # original request (root-ness, asset, dynamic branch, attribute)
    vb = F.body("graph::Builder::visit")
    n_r = 0
    for arm in [a_ for m_ in vb["_nodes"] if m_.get("k") == "Match" for a_ in m_["arms"]]:
        if not (arm["pat"].get("path") or "").endswith("PendingInfoResponse::Redirect"):
            continue
        binds = {b_["lid"] for b_ in pat_bindings(arm["pat"])}
        for l in [x for x in walk(arm["body"]) if x.get("k") == "Struct" and x.get("adt") == "graph::LoadOptionsRef"]:
            n_r += 1
            f = {x["name"]: peel_value(x["e"]) for x in l["fields"]}
            for fld in ("is_root", "is_asset", "in_dynamic_branch", "maybe_attribute_type"):
                R.ob("C01-b", "a redirected load keeps the request's %s" % fld, any(peel_value(y).get("lid") in binds for y in through_locals(f[fld])),
                     "the load that follows a loader redirect takes %s from `%s` instead of from the redirected request: e.g. a redirected root would be loaded as a non-root (unknown media types / JSON without attribute then become errors and the root's closure is missing)" % (fld, expr_text(f[fld])[:50]), where(l))
    R.floor("C01-b redirect continuation", n_r, 1)
    tl_ = [b for b in F.bodies if b["path"].endswith("try_load") and "load_pending_module" in b["path"]]
    for l in [n for b in tl_ for n in b["_nodes"] if n["k"] == "Struct" and (n.get("variant") or "").endswith("PendingInfoResponse::Redirect")]:
        f = {x["name"]: peel_value(x["e"]) for x in l["fields"]}
        for fld, src in (("is_root", "is_root"), ("is_asset", "is_asset"), ("is_dynamic", "in_dynamic_branch")):
            v = f.get(fld, {})
            ok = v.get("res") == "local" and tyc(F, v, "bool") and not local_defs(v["_top"], v["lid"]) == [] and all(d[0] in ("param", "pat", "letpat", "let") for d in local_defs(v["_top"], v["lid"]))
            nm_ok = True
            R.ob("C01-b", "the redirect response carries the request's %s" % fld, ok and nm_ok, "Redirect { %s: %s }" % (fld, expr_text(f.get(fld, {}))[:40]), where(l))

    # ... and its dynamic flag is the very value the loader was told for this request (sibling agreement)
    for b in tl_:
        told = {peel_value(x["e"]).get("lid") for n in b["_nodes"] if n["k"] == "Struct" and (n.get("adt") or "").endswith("source::LoadOptions") for x in n["fields"] if x["name"] == "in_dynamic_branch"} - {None}
        for l in [n for n in b["_nodes"] if n["k"] == "Struct" and (n.get("variant") or "").endswith("PendingInfoResponse::Redirect")]:
            f = {x["name"]: peel_value(x["e"]) for x in l["fields"]}
            if told and "is_dynamic" in f:
                R.ob("C01-b", "the redirect response's dynamic flag is the one the loader was given for this request", f["is_dynamic"].get("lid") in told,
                     "Redirect { is_dynamic: %s } is not the value passed to the loader as `in_dynamic_branch`: the re-issued load of the redirect target leaves the dynamic branch (a JSON module imported dynamically through a redirect becomes an unsupported-media-type error)" % expr_text(f["is_dynamic"])[:40],
                     where(l), key="C01|C01-b|redirect-dynamic-flag")

    # root-ness travels with the final specifier: resolved_roots gains exactly the specifiers
    # that roots resolved / redirected to
    rr = [n for n in F.all_nodes() if n.get("k") == "MethodCall" and n["name"] == "insert" and field_of(n["recv"]) == "resolved_roots" and not n["_top"].get("derived")]
    R.floor("C01-b resolved_roots inserts", len(rr), 3)
    def bound_to_is_root(top, lid):
        """lid is bound by the `is_root` field of a struct pattern"""
        for q in top["_nodes"]:
            if q.get("k") == "Pat" and q.get("pk") == "struct":
                for fp in q.get("fields") or []:
                    if fp.get("name") == "is_root" and any(b_.get("lid") == lid for b_ in pat_bindings(fp["pat"])):
                        return True
        return False
    for n in rr:
        g = guards_at(F, n)
        ok = any(x.kind == "cond" and x.pol and ((peel(x.node).get("k") == "Field" and peel(x.node)["field"] == "is_root") or (peel(x.node).get("res") == "local" and bound_to_is_root(n["_top"], peel(x.node)["lid"]))) for x in g)
        R.ob("C01-b", "a specifier is recorded as a resolved root only for a root request", ok,
             "`resolved_roots.insert(..)` in %s is not under a positive `is_root` test: non-roots would be loaded with root privileges (unknown media type assumed JavaScript, JSON without attribute accepted) and real roots without them" % n["_top"]["path"].split("::")[-1], where(n))

    # ---------------- C01-c ------------------------------------------------
    for adt in ("graph::Dependency", "graph::JsModule", "graph::WasmModule", "graph::JsonModule", "graph::TypesDependency"):
        a = F.adt(adt)
        for f in a["variants"][0]["fields"]:
            t = F.types[f["ty"]]
            if t == "graph::Resolution" or "graph::TypesDependency" in t:
                known = (adt, f["name"]) in EDGE_FIELDS or (adt, f["name"]) == ("graph::TypesDependency", "dependency")
                R.ob("C01-c", "edge field %s.%s is known to the builder rule" % (adt, f["name"]), known,
                     "new edge field %s.%s: nothing is known to load its target (modules reachable only through it would be absent)" % (adt, f["name"]), a["file"])
    bodies = [F.body("graph::Builder::visit_module"), F.body("graph::Builder::visit_module_dependencies"), F.body("graph::Builder::handle_provided_imports")]
    found = {}
    EDGE_NAMES = ("maybe_code", "maybe_type", "maybe_types_dependency", "maybe_source_map_dependency")

    def edge_fields(scr, top_, depth=3):
        out = [x["field"] for x in walk(scr) if x.get("k") == "Field" and x["field"] in EDGE_NAMES]
        if out or depth == 0:
            return out
        for y in walk(scr):
            if y.get("k") == "Path" and y.get("res") == "local":
                for d in local_defs(top_, y["lid"]):
                    if d[1] is not None:
                        out += edge_fields(d[1], top_, depth - 1)
        return out

    def constructs(b):
        """(pattern, scrutinee, region executed when it matched) for if-let (also as a
        conjunct of a let-chain), let-else and match arms"""
        for n in b["_nodes"]:
            if n["k"] == "Let":
                o = n
                while o.get("_p") is not None and o["_p"].get("k") == "Binary":
                    o = o["_p"]
                owner = o.get("_p") or {}
                if owner.get("k") == "If" and is_within(n, owner["cond"]):
                    yield n["pat"], n["init"], owner["then"]
            elif n["k"] == "LetStmt" and "else" in n and "init" in n:
                blk = n["_p"]
                if blk.get("k") == "Block":
                    i = [j for j, st_ in enumerate(blk["stmts"]) if st_ is n]
                    if i:
                        rest = {"k": "Block", "id": n["id"] + 0.5, "h": "rest", "ln": n.get("ln"), "stmts": blk["stmts"][i[0] + 1:], "_p": blk, "_top": n["_top"], "_role": "rest"}
                        if "expr" in blk:
                            rest["expr"] = blk["expr"]
                        yield n["pat"], n["init"], rest
            elif n["k"] == "Match":
                for arm in n["arms"]:
                    yield arm["pat"], n["scrut"], arm["body"]

    for b in bodies:
        for pat, scr, then in constructs(b):
            n = then
            if "graph::Resolution::Ok" not in pat_text(pat):
                continue
            flds = edge_fields(scr, b)
            if not flds:
                continue
            edge = (b["path"].split("::")[-1], flds[0])
            binds = {x["lid"] for x in pat_bindings(pat)}

            def loads(m, binds=binds):
                if callee_matches(m, ["Builder::load"]):
                    st = [s for s in walk(m) if s.get("k") == "Struct" and s.get("adt") == "graph::LoadOptionsRef"]
                    if st:
                        sp = peel_value([f["e"] for f in st[0]["fields"] if f["name"] == "specifier"][0])
                        # specifier is resolved.specifier (directly or via a local)
                        if sp.get("k") == "Field" and sp["field"] == "specifier" and peel_value(sp["e"]).get("lid") in binds:
                            return True
                        if sp.get("res") == "local":
                            for d in local_defs(m["_top"], sp["lid"]):
                                if d[1] is not None and peel_value(d[1]).get("k") == "Field" and peel_value(peel_value(d[1])["e"]).get("lid") in binds:
                                    return True
                if m.get("k") == "MethodCall" and m["name"] in ("entry", "insert") and field_of(m["recv"]) == "dynamic_branches":
                    return True
                return False

            bad, _ = must_pass(F, then, loads, exit_kinds=("fallthrough", "return", "break", "continue"))
            found.setdefault(edge, []).append((n, not bad))
    expected = [("visit_module", "maybe_source_map_dependency"), ("visit_module", "maybe_types_dependency"), ("visit_module_dependencies", "maybe_code"), ("visit_module_dependencies", "maybe_type"), ("handle_provided_imports", "maybe_type")]
    for e in expected:
        sites = found.get(e, [])
        R.ob("C01-c", "edge %s has a loader site in %s" % (e[1], e[0]), len(sites) >= 1, "no `if let Resolution::Ok(resolved) = ..%s..` loader site in %s: modules reachable only through this edge kind are never loaded" % (e[1], e[0]), "src/graph.rs")
        for n, ok in sites:
            R.ob("C01-c", "resolved %s target is loaded (or parked as a dynamic branch) on every path" % e[1], ok,
                 "a path through the Resolution::Ok branch of %s neither calls Builder::load(resolved.specifier) nor parks it in dynamic_branches" % e[1], where(n))
            R.sample({"rule": "C01-c", "edge": e[1], "site": where(n)})
    # dynamic branches are all re-issued
    rdb = F.body("graph::Builder::resolve_dynamic_branches")
    fors = [n for n in rdb["_nodes"] if n["k"] == "For" and "dynamic_branches" in expr_text(n["iter"])]
    if R.ob("C01-c", "parked dynamic branches are drained", len(fors) == 1, "shape changed", rdb["file"]):
        bad, _ = must_pass(F, fors[0]["body"], lambda n: callee_matches(n, ["Builder::load"]), exit_kinds=("fallthrough", "break", "continue", "return"))
        R.ob("C01-c", "every parked dynamic branch is loaded", not bad, "a parked dynamic import can be skipped", where(fors[0]))
    # gating (C01-e): which graph kinds follow which edge
    vmd = bodies[1]
    for n in vmd["_nodes"]:
        if n["k"] == "If" and n["cond"].get("k") == "Let" and "graph::Resolution::Ok" in pat_text(n["cond"]["pat"]):
            fld = [x["field"] for x in walk(n["cond"]["init"]) if x.get("k") == "Field" and x["field"] in ("maybe_code", "maybe_type")]
            g = guards_at(F, n)
            if fld and fld[0] == "maybe_type":
                R.ob("C01-e", "type edges are loaded only when the graph includes types", any(x.kind == "cond" and x.pol and (x.node.get("fn") or "").endswith("GraphKind::include_types") for x in g), "maybe_type loaded without graph_kind.include_types()", where(n))
            if fld and fld[0] == "maybe_code":
                ok = any(x.kind == "cond" and x.pol and x.node.get("k") == "Binary" and x.node["op"] == "||" and "include_code" in expr_text(x.node) and "maybe_type" in expr_text(x.node) for x in g)
                R.ob("C01-e", "code edges are loaded when the graph includes code or the dependency has no type target", ok, "gate of maybe_code changed: %s" % [x.text()[:60] for x in g if x.kind == "cond"], where(n))
    sk = [n for n in vmd["_nodes"] if n["k"] == "Continue"]
    for c in sk:
        g = guards_at(F, c)
        ok = any(x.kind == "cond" and x.pol and "is_dynamic" in expr_text(x.node) for x in g) and any(x.kind == "cond" and x.pol and "skip_dynamic_deps" in expr_text(x.node) for x in g)
        R.ob("C01-e", "a dependency is skipped only when it is dynamic and skip_dynamic_deps is set", ok, "`continue` in visit_module_dependencies guarded by %s" % [x.text()[:50] for x in g], where(c))

    # ---------------- C01-f ------------------------------------------------
    # every piece of the analysis result is consumed by the graph builder
    consumers = [b for b in F.bodies if b["file"] == "src/graph.rs" and not b.get("derived")]
    read = set()
    for b in consumers:
        for n in b["_nodes"]:
            if n.get("k") == "Field" and n.get("adt"):
                read.add((n["adt"], n["field"]))
            if n.get("k") == "Pat" and n.get("pk") == "struct":
                for f in n["fields"]:
                    read.add((n.get("path"), f["name"]))
    for adt in ("analysis::ModuleInfo", "analysis::StaticDependencyDescriptor", "analysis::DynamicDependencyDescriptor", "analysis::SpecifierWithRange", "analysis::JsDocImportInfo"):
        a = F.adt(adt)
        for f in a["variants"][0]["fields"]:
            R.ob("C01-f", "analysis result field %s.%s is consumed by the graph builder" % (adt.split("::")[-1], f["name"]), (adt, f["name"]) in read,
                 "graph.rs never reads %s.%s: that kind of dependency information reported by the analyser would be silently dropped from every graph" % (adt, f["name"]), a["file"])
    # media type dispatch
    pm = F.body("graph::parse_module_source_and_info")
    mts = [n for n in pm["_nodes"] if n["k"] == "Match" and tyc(F, n["scrut"], "deno_media_type::MediaType") and len(n["arms"]) >= 3]
    if R.ob("C01-f", "media type dispatch found", len(mts) == 1, "shape changed", pm["file"]):
        m = mts[0]
        ca = any(pat_variants(a_["pat"])[1] for a_ in m["arms"])
        R.ob("C01-f", "every media type is dispatched explicitly", not ca, "catch-all over MediaType: a new media type would silently become a module or an error", where(m))
        for arm in m["arms"]:
            v, _ = pat_variants(arm["pat"])
            names = {x.split("::")[-1] for x in v}
            ctors = {ctor_of(x) for x in walk(arm["body"]) if ctor_of(x)}
            if names & {"JavaScript", "TypeScript", "Jsx", "Tsx", "Mjs", "Mts", "Dts"}:
                js = [x for x in walk(arm["body"]) if x.get("k") == "Struct" and x.get("variant") == "graph::ModuleSourceAndInfo::Js"]
                an = [x for x in walk(arm["body"]) if x.get("k") == "MethodCall" and x["name"] == "analyze"]
                ok = len(js) == 1 and len(an) == 1
                if ok:
                    f = {y["name"]: peel_value(y["e"]) for y in js[0]["fields"]}
                    txt = peel_value(an[0]["args"][1])
                    ok = f["media_type"].get("lid") == peel(m["scrut"]).get("lid") and txt.get("k") == "Field" and txt["field"] == "text" and peel_value(txt["e"]).get("lid") == f["source"].get("lid") \
                        and peel_value(an[0]["args"][2]).get("lid") == peel(m["scrut"]).get("lid")
                R.ob("C01-f", "JS/TS modules are analysed on exactly the text and media type that are stored", ok,
                     "the analyser is run on something other than the stored source text / media type: recorded dependencies would not be those the stored source declares", where(arm["body"]))
                R.ob("C01-f", "an analysis failure becomes a Parse error entry", "graph::ModuleErrorKind::Parse" in ctors, "no ModuleErrorKind::Parse in the JS arm", where(arm["body"]))
            elif names & {"Wasm"}:
                R.ob("C01-f", "wasm modules are analysed through their generated declaration text", "graph::ModuleSourceAndInfo::Wasm" in ctors and "graph::ModuleErrorKind::WasmParse" in ctors, "wasm arm changed: %s" % sorted(c for c in ctors if c.startswith("graph::")), where(arm["body"]))
            elif names & {"Unknown", "Css", "Html"}:
                vals = []
                _tail_values(F, arm["body"], vals)
                R.ob("C01-f", "non-module media types become UnsupportedMediaType errors", "graph::ModuleErrorKind::UnsupportedMediaType" in ctors and all(ctor_of(x) == "std::result::Result::Err" for x in vals), "unsupported media types are not rejected", where(arm["body"]))

    # types dependency: the in-source declaration wins, later sources only fill a gap
    pj = F.body("graph::parse_js_module_from_module_info")
    tw = [n for n in pj["_nodes"] if n["k"] == "Assign" and field_of(n["l"]) == "maybe_types_dependency" and peel(n["l"]).get("adt") == "graph::JsModule"]
    R.floor("C01-f writes to JsModule::maybe_types_dependency while parsing", len(tw), 4)
    for w in tw:
        earlier = [o for o in tw if o is not w and may_reach(F, o, w)]
        if not earlier:
            R.ob("C01-f", "first source of a module's types dependency", True, nontrivial=False)
            continue
        g = guards_at(F, w)
        ok = any(x.kind == "cond" and x.pol and x.node.get("k") == "MethodCall" and x.node["name"] == "is_none" and peel_value(x.node["recv"]).get("field") == "maybe_types_dependency" for x in g) or \
            any(x.kind == "cond" and not x.orig_pol and mentions_field(x.orig, "maybe_types_dependency") and any(y.get("name") == "is_some" for y in walk(x.orig) if y.get("k") == "MethodCall") for x in g)
        R.ob("C01-f", "a later source of the types dependency only fills a gap (does not overwrite an earlier one)", ok,
             "`module.maybe_types_dependency = ..` can overwrite a types dependency already taken from the source text (not guarded by maybe_types_dependency.is_none()): the module would record the wrong type target", where(w))
    aj = [n for n in pm["_nodes"] if n["k"] == "Assign" and ctor_of(peel(n["r"])) == "deno_media_type::MediaType::JavaScript"]
    for a_ in aj:
        g = guards_at(F, a_)
        ok = any(x.kind == "cond" and x.pol and peel(x.node).get("field") == "is_root" for x in g) and any(x.kind == "cond" and x.pol and any(ctor_of(y) == "deno_media_type::MediaType::Unknown" for y in walk(x.node)) for x in g)
        R.ob("C01-f", "an unknown media type is assumed to be JavaScript only for roots", ok,
             "media_type = JavaScript under %s: non-root files of unknown type would become modules (pulling their imports into the graph) instead of UnsupportedMediaType errors" % [x.text()[:50] for x in g if x.kind == "cond"], where(a_))

    # ---------------- C01-v ------------------------------------------------
    # what the source text declares reaches the graph only through the dependency
    # collector: every specifier-carrying syntax has a handler and handlers recurse
    # (shared with C08-V)
    from . import c08
    c08.visitor_coverage(F, R, tag="C01-v", pid="C01")

    # ---------------- C01-d ------------------------------------------------
    is_dynamic_writes(F, R)
    import_literals(F, R)
    descriptor_loops_complete(F, R)
    type_writes_gated(F, R)
    type_import_tests(F, R)
    aw = [n for n in F.all_nodes() if not n["_top"].get("derived") and n["k"] in ("Assign", "AssignOp") and peel(n["l"]).get("k") == "Field" and peel(n["l"])["field"] == "is_asset" and peel(n["l"]).get("adt") == "graph::PendingDynamicBranch"]
    R.floor("C01-d writes to PendingDynamicBranch::is_asset", len(aw), 1)
    for w in aw:
        r = peel(w["r"])
        R.ob("C01-d", "a parked dynamic branch can only be upgraded from asset to module load", r.get("k") == "Lit" and r.get("v") is False,
             "PendingDynamicBranch::is_asset is assigned `%s`: a later asset-style importer could turn a module load back into an asset load, leaving the module's own imports unloaded" % expr_text(w["r"]), where(w))
    # the load of a dependency is issued as dynamic exactly when parked branches are drained
    lit = [n for n in rdb["_nodes"] if n["k"] == "Struct" and n.get("adt") == "graph::LoadOptionsRef"]
    for l in lit:
        f = {x["name"]: peel(x["e"]) for x in l["fields"]}
        R.ob("C01-d", "parked branches are loaded as dynamic", f["in_dynamic_branch"].get("v") is True, "in_dynamic_branch = %s" % expr_text(f["in_dynamic_branch"]), where(l))
