"""C04 — build results do not depend on load completion order or on the run.

Decides:
  a. T6: every iteration over a std HashMap / HashSet (RandomState: order
     differs between runs of one process) in non-derived code feeds only
     order-insensitive sinks, or is a reviewed exemption.
  b. completion order: the main load queue is a FuturesOrdered; every
     FuturesUnordered consumer only performs writes keyed by the completed
     item's own specifier.
  c. observable / serialised state lives in ordered containers; no Serialize
     type exposes a std hash collection un-skipped (reviewed exemptions).
  d. directory-listing expansion of template dynamic imports is sorted before
     use.
"""
import re
from .lib import *

EXPLANATION = (
    "Type-resolved enumeration of every iteration over std::collections::HashMap/HashSet in the crate (for loops, iterator "
    "method chains, by-value hand-off to Extend/FromIterator) with an automatic classification of the consumer as "
    "order-insensitive (keyed inserts, any/all/count, collect into a map/set, pure retain) or order-sensitive (Vec push, "
    "calls that schedule loads, early exit, escape); sensitive sites must be reviewed exemptions. Plus type rules for the "
    "queues and observable containers, and a must-pass-through rule for the sort of directory expansions."
)
NOT_DECIDED = "independence from the suspension points of arbitrary executors; equality of whole graphs across runs"
CONFIGS = ["default", "nofastcheck"]  # thorough tier also analyses the build without fast_check / symbols
ASSUMPTIONS = [
    "BTreeMap/BTreeSet/IndexMap/IndexSet/Vec iterate deterministically; std HashMap/HashSet with RandomState do not",
    "foreign functions that receive a hash collection by reference are not assumed to iterate it",
]

HASH_COLL = re.compile(r"^(&(mut )?)*std::collections::(HashMap|HashSet)<")
HASH_ITER = re.compile(r"^std::collections::hash_(map|set)::")
ORDERED_OK = re.compile(r"^(&(mut )?)*(std::collections::(BTreeMap|BTreeSet|HashMap|HashSet)|indexmap::(IndexMap|IndexSet))<")
KEYED_INSENSITIVE = re.compile(r"^(&(mut )?)*std::collections::(BTreeMap|BTreeSet|HashMap|HashSet)<")

ITER_METHODS = {
    "iter", "iter_mut", "keys", "values", "values_mut", "into_iter", "drain", "into_keys", "into_values",
    "extract_if", "difference", "intersection", "union", "symmetric_difference",
}
ADAPTORS = {"filter", "map", "filter_map", "flat_map", "flatten", "cloned", "copied", "inspect", "chain", "peekable", "by_ref", "into_iter", "iter", "map_while"}
INSENSITIVE_TERMINALS = {"any", "all", "count", "len", "is_empty", "contains", "contains_key"}
SENSITIVE_TERMINALS = {"find", "find_map", "next", "last", "nth", "position", "take", "skip", "enumerate", "zip", "fold", "reduce", "try_fold", "rev", "take_while", "skip_while", "step_by", "for_each", "try_for_each", "unzip", "partition", "max_by", "min_by", "max_by_key", "min_by_key", "max", "min", "sum", "product"}

# Reviewed exemptions: (function, iterated expression text) -> reason.
EXEMPT = {
    ("graph::Builder::probe_cached_jsr_version_manifests", "package_info.versions.iter()"):
        "order only permutes independent cache-only loader probes; the results are zipped back with the same candidates vector and stored keyed by version (HashSet inserts)",
    ("fast_check::build_fast_check_type_graph", "public_modules"):
        "per-package results are appended to a Vec, but each (specifier, result) is consumed as a keyed write into module_slots by ModuleGraph::build_fast_check_type_graph; specifiers are distinct across packages; cache writes are keyed by package",
    ("packages::PackageSpecifiers::packages_with_deps", "info.found_dependencies.iter()"):
        "public set-valued accessor (the dependency *set* of a package); not part of graph serialisation (PackageSpecifiers serialises only package_reqs)",
    ("packages::JsrPackageVersionResolver::resolve_version", "self.package_info.versions.iter()"):
        "consumed by packages::resolve_version, a strict-maximum fold over distinct version keys (checked by rule C04-a-max)",
}

FNS_SCHEDULING = ("Builder::load", "Builder::load_with_redirect_count", "Builder::visit", "Locker::", "Reporter::")


def tys(F, n):
    return F.ty(n, True) or ""


def classify_body(F, body, loop_locals):
    """Effects of a loop / closure body; returns list of sensitive effect
    descriptions (empty = order-insensitive)."""
    bad = []
    for n in walk(body):
        k = n["k"]
        if k in ("Ret",) and "e" in n:
            v = peel(n["e"])
            if v.get("k") != "Lit":
                bad.append("returns a value from inside the iteration")
        elif k == "Break" and "e" in n:
            bad.append("breaks with a value")
        elif k == "Try":
            bad.append("`?` inside the iteration (first error wins)")
        elif k == "Assign":
            r = peel(n["r"])
            if r.get("k") == "Lit" or ctor_of(r) in ("std::option::Option::None",):
                continue
            l = peel(n["l"])
            if l.get("res") == "local" and l.get("lid") in loop_locals:
                continue
            bad.append("assigns `%s`" % expr_text(n)[:60])
        elif k == "AssignOp":
            if n["op"] in ("|=", "&=", "+=", "^="):
                continue
            bad.append("compound assignment `%s`" % expr_text(n)[:60])
        elif k == "MethodCall":
            fn = n.get("fn") or ""
            rt = F.tystr(n.get("recv_ty")) or ""
            name = n["name"]
            if name in ("insert", "entry", "remove", "extend") and KEYED_INSENSITIVE.match(rt):
                continue
            if name in ("or_insert", "or_insert_with", "or_default", "and_modify", "or_insert_with_key"):
                continue
            if name in ("push", "push_back", "push_front", "push_str", "insert", "extend", "append", "entry", "shift_insert", "insert_full"):
                if rt.startswith("std::vec::Vec") or rt.startswith("std::collections::VecDeque") or rt.startswith("indexmap::") or rt.startswith("std::string::String") or rt.startswith("futures::"):
                    bad.append("order-sensitive sink `%s` on %s" % (name, rt[:50]))
                    continue
            tgt = n.get("impl") or fn
            if tgt in F.by_path or fn in [m["path"] for t in F.traits.values() for m in t["methods"]]:
                # local callee: sensitive if it takes &mut self or is a scheduling call
                b = F.by_path.get(tgt, [None])[0]
                mut_self = bool(b) and b.get("inputs") and (F.tystr(b["inputs"][0]) or "").startswith("&mut ")
                if mut_self or any(s in fn for s in FNS_SCHEDULING) or not b:
                    bad.append("calls %s" % fn)
        elif k == "Call":
            fn = n.get("fn") or ""
            tgt = n.get("impl") or fn
            b = F.by_path.get(tgt, [None])[0]
            if b is not None:
                ins = [F.tystr(t) or "" for t in b.get("inputs", [])]
                if any(t.startswith("&mut ") for t in ins):
                    bad.append("calls %s with a mutable reference" % fn)
            if "log::" in fn:
                continue
    return bad


def consumer(F, site):
    """Follow an iterator value up through adaptor chains to its consumer.
    Returns (verdict, detail) with verdict in insensitive | sensitive | review."""
    n = site
    chain = []
    while True:
        p = n.get("_p")
        if p is None:
            return "review", "iterator value at top of body"
        k = p.get("k")
        role = n.get("_role")
        if k == "MethodCall" and role == "recv":
            name = p["name"]
            chain.append(name)
            if name in ADAPTORS:
                # closures of adaptors must be pure w.r.t. outer state
                for a in p["args"]:
                    c = peel(a)
                    if c.get("k") == "Closure":
                        bad = classify_body(F, c["body"]["value"], set())
                        if bad:
                            return "sensitive", "adaptor `%s` closure %s" % (name, bad[0])
                n = p
                continue
            if name == "collect":
                t = tys(F, p)
                if KEYED_INSENSITIVE.match(t):
                    return "insensitive", "collect into %s" % t[:60]
                return "sensitive", "collect into %s" % t[:60]
            if name in INSENSITIVE_TERMINALS:
                return "insensitive", "terminal `%s`" % name
            if name in ("for_each",):
                c = peel(p["args"][0])
                bad = classify_body(F, c["body"]["value"], set()) if c.get("k") == "Closure" else ["non-closure"]
                return ("sensitive", "for_each: " + bad[0]) if bad else ("insensitive", "for_each with keyed effects only")
            return "sensitive", "terminal `%s`" % name
        if k == "For" and role == "iter":
            locs = {b["lid"] for b in pat_bindings(p["pat"])}
            bad = classify_body(F, p["body"], locs)
            if bad:
                return "sensitive", "loop body " + "; ".join(sorted(set(bad))[:3])
            return "insensitive", "loop body performs only keyed inserts / commutative accumulation"
        if k in ("Call", "MethodCall"):
            fn = p.get("fn") or ""
            if fn.endswith("Extend::extend") or fn.endswith("::extend"):
                rt = tys(F, call_args(p)[0])
                if KEYED_INSENSITIVE.match(rt):
                    return "insensitive", "extend into %s" % rt[:60]
                return "sensitive", "extend into %s" % rt[:60]
            return "review", "passed to %s" % (fn or expr_text(p)[:40])
        if k in ("AddrOf", "Block") or (k == "Unary" and p["op"] == "*"):
            n = p
            continue
        if k == "LetStmt" and p["pat"].get("pk") == "bind":
            # lazily bound iterator: follow the uses of the local
            lid = p["pat"]["lid"]
            uses = [u for u in p["_top"]["_nodes"] if u.get("k") == "Path" and u.get("lid") == lid]
            verdicts = [consumer(F, u) for u in uses]
            if not verdicts:
                return "insensitive", "unused"
            worst = [v for v in verdicts if v[0] != "insensitive"]
            return worst[0] if worst else verdicts[0]
        if k == "Tup" or k == "Closure" or k is None or k == "Ret" or k == "Struct":
            return "review", "iterator escapes (%s)" % (k or "returned")
        return "review", "used by %s" % k


def run(F, R, tier):
    # ---------------- C04-a ------------------------------------------------
    sites = []
    inlined_helpers = {t_ for (_c, t_, _l) in getattr(F, "inlined", [])}
    for b in F.bodies:
        if b.get("derived") or b["path"] in inlined_helpers:
            continue  # a helper extracted after arming is analysed inside each of its callers (inline view)
        for n in b["_nodes"]:
            k = n["k"]
            if k == "For":
                t = tys(F, n["iter"])
                it = peel(n["iter"])
                if HASH_COLL.match(t) and not (it.get("k") == "MethodCall" and it["name"] in ITER_METHODS):
                    sites.append(("for", n["iter"], n))
            elif k == "MethodCall":
                rt = F.tystr(n.get("recv_ty")) or ""
                if HASH_COLL.match(rt):
                    if n["name"] in ITER_METHODS:
                        sites.append(("iter", n, n))
                    elif n["name"] == "retain":
                        sites.append(("retain", n, n))
            if k in ("Call", "MethodCall"):
                fn = n.get("fn") or ""
                if fn.endswith("Extend::extend") or fn.endswith("FromIterator::from_iter") or "join_all" in fn:
                    for a in n["args"]:
                        if HASH_COLL.match(tys(F, a)) and peel(a).get("k") != "MethodCall":
                            sites.append(("arg", a, n))
    R.floor("C04-a hash iteration sites", len(sites), 11 if getattr(R, "config", "default") == "default" else 7)
    n_auto = 0
    for kind, expr, node in sites:
        fnp = node["_top"]["path"]
        text = expr_text(expr)
        inst = "%s|%s" % (fnp, text)
        if kind == "retain":
            c = peel(node["args"][0])
            bad = classify_body(F, c["body"]["value"], set()) if c.get("k") == "Closure" else ["non-closure predicate"]
            verdict, detail = ("sensitive", bad[0]) if bad else ("insensitive", "retain with a predicate that has no outer effects")
        elif kind == "for":
            locs = {b["lid"] for b in pat_bindings(node["pat"])}
            bad = classify_body(F, node["body"], locs)
            verdict, detail = ("sensitive", "loop body " + "; ".join(sorted(set(bad))[:3])) if bad else ("insensitive", "loop body performs only keyed inserts / commutative accumulation")
        elif kind == "arg":
            fn = node.get("fn") or ""
            rt = tys(F, call_args(node)[0]) if node["k"] == "MethodCall" else ""
            if fn.endswith("extend") and KEYED_INSENSITIVE.match(rt):
                verdict, detail = "insensitive", "extend into %s" % rt[:60]
            else:
                verdict, detail = "sensitive", "hash collection handed to %s (receiver %s)" % (fn, rt[:40])
        else:
            verdict, detail = consumer(F, node)
        if verdict == "insensitive":
            n_auto += 1
            R.ob("C04-a", inst, True, detail)
            R.sample({"rule": "C04-a", "site": where(node), "iterates": text, "verdict": verdict, "why": detail})
            continue
        ex = EXEMPT.get((fnp, text))
        if ex:
            R.ob("C04-a", inst, True, "reviewed exemption (%s: %s): %s" % (verdict, detail, ex))
            continue
        R.violation("T6", inst,
                    "iteration over a std hash collection `%s` feeds an order-sensitive consumer (%s): the effect order changes with the hasher seed, i.e. between runs in one process" % (text, detail),
                    where(node), key="C04|T6|%s|%s" % (fnp, text))
    R.analysed["hash_iteration_sites"] = len(sites)
    R.analysed["auto_classified_insensitive"] = n_auto

    # checked part of the resolve_version exemption: strict max fold
    rv = F.body("packages::resolve_version")
    fors = [n for n in rv["_nodes"] if n["k"] == "For"]
    R.floor("C04-a-max loops in packages::resolve_version", len(fors), 1)
    for lp in fors:
        for a in [x for x in walk(lp["body"]) if x["k"] == "Assign"]:
            r = peel(a["r"])
            if r.get("k") == "Lit":
                R.ob("C04-a-max", "constant flag assignment `%s`" % expr_text(a), True)
                continue
            g = guards_at(F, a, stop_at=lp)
            strict = False
            for x in g:
                if x.kind != "cond" or not x.pol:
                    continue
                c = x.node
                txt = expr_text(c)
                # follow a local flag to its definition
                if c.get("res") == "local":
                    for d in local_defs(rv, c["lid"]):
                        if d[0] == "let":
                            txt = expr_text(d[1])
                            c = d[1]
                # the deciding value must *be* an ordering test `a.cmp(b)[.then_with(..)].is_lt()` (possibly
                # inside `.map(|best| ..).unwrap_or(true)` for the first candidate), not merely contain one
                def is_ordering_test(e):
                    e = peel(e)
                    if e.get("k") == "MethodCall" and e["name"] in ("unwrap_or", "unwrap_or_default") and peel(e["recv"]).get("k") == "MethodCall" and peel(e["recv"])["name"] == "map":
                        clo = peel(peel(e["recv"])["args"][0])
                        return clo.get("k") == "Closure" and is_ordering_test(clo["body"]["value"])
                    if e.get("k") == "Block" and not e["stmts"] and "expr" in e:
                        return is_ordering_test(e["expr"])
                    if e.get("k") == "Match":
                        # `match best { Some(b) => b.cmp(v)...is_lt(), None => true }` (first candidate always wins)
                        tests = [is_ordering_test(a_["body"]) for a_ in e["arms"]]
                        firsts = [peel(a_["body"]).get("v") is True and "Option::None" in pat_text(a_["pat"]) for a_ in e["arms"]]
                        return any(tests) and all(t_ or f_ for t_, f_ in zip(tests, firsts))
                    if e.get("k") == "MethodCall" and e["name"] in ("is_lt", "is_gt", "is_le", "is_ge"):
                        r = peel(e["recv"])
                        while r.get("k") == "MethodCall" and r["name"] in ("then_with", "then"):
                            r = peel(r["recv"])
                        return r.get("k") in ("MethodCall", "Call") and (r.get("fn") or "").endswith("Ord::cmp")
                    return False
                if is_ordering_test(c):
                    strict = True
            # ties: types whose Ord is coarser than their Eq/Hash (reviewed facts about dependencies)
            NON_TOTAL = {"deno_semver::Version": "Ord ignores build metadata while Eq/Hash (HashMap keys) do not: 1.0.0+a and 1.0.0+b are distinct keys that compare Equal"}
            for x in g:
                if x.kind != "cond" or not x.pol:
                    continue
                c = x.node
                if c.get("res") == "local":
                    for d in local_defs(rv, c["lid"]):
                        if d[0] == "let":
                            c = d[1]
                for y in walk(c):
                    if (y.get("fn") or "").endswith("Ord::cmp") and y.get("k") in ("MethodCall", "Call"):
                        t = (F.tystr(y.get("recv_ty")) or F.ty(call_args(y)[0], True) or "").lstrip("&")
                        if t in NON_TOTAL:
                            tie = any(z.get("k") == "MethodCall" and z["name"] in ("then_with", "then") and (z.get("fn") or "").startswith("std::cmp::Ordering::") for z in walk(c))
                            R.ob("C04-a-max", "ties between distinct keys are broken deterministically (%s)" % t, tie,
                                 "the maximum over hash-ordered registry versions compares with %s::cmp only (%s): among versions that compare Equal the first one iterated wins, so the selected version changes with the hasher seed" % (t, NON_TOTAL[t]),
                                 where(a), key="C04|T6|packages::resolve_version|tie-break")
            R.ob("C04-a-max", "best-version update `%s` is guarded by an ordering comparison" % expr_text(a), strict,
                 "the fold over registry versions replaces the best candidate without an `Ord::cmp` guard between best and candidate: with hash-ordered input the selected version would depend on iteration order", where(a))

    # ---------------- C04-b ------------------------------------------------
    ps = F.adt("graph::PendingState")
    pend = [f for f in ps["variants"][0]["fields"] if f["name"] == "pending"]
    R.ob("C04-b", "PendingState.pending is a FuturesOrdered", bool(pend) and F.types[pend[0]["ty"]].startswith("futures::stream::FuturesOrdered<"),
         "the main load queue is not FuturesOrdered: responses would be visited in completion order", ps["file"])
    unordered = []
    for p, a in F.adts.items():
        for v in a["variants"]:
            for f in v["fields"]:
                if "FuturesUnordered" in F.types[f["ty"]]:
                    unordered.append((p, f["name"]))
    R.floor("C04-b FuturesUnordered fields", len(unordered), 1)
    for adt, fname in unordered:
        # consumers: `.next()` on that field
        cons = [n for n in F.all_nodes() if n.get("k") == "MethodCall" and n["name"] == "next" and field_of(n["recv"]) == fname]
        R.ob("C04-b", "%s.%s has a consumer" % (adt, fname), len(cons) >= 1, "no `.next()` consumer found", a["file"])
        for c in cons:
            lp = None
            for a_ in k_ancestors(c):
                if a_["k"] in ("While", "Loop", "For"):
                    lp = a_
                    break
            if lp is None:
                R.violation("C04-b", "%s.%s consumer outside a loop" % (adt, fname), "unexpected consumer shape", where(c))
                continue
            item = None
            cond = lp.get("cond")
            if cond and cond.get("k") == "Let":
                bs = pat_bindings(cond["pat"])
                item = bs[0] if bs else None
            body = lp["body"]
            bad = []
            for n in walk(body):
                if n.get("k") != "MethodCall":
                    continue
                fn = n.get("fn") or ""
                rt = F.tystr(n.get("recv_ty")) or ""
                if n["name"] in ("push", "push_back", "push_front") and (rt.startswith("std::vec::Vec") or rt.startswith("std::collections::VecDeque") or rt.startswith("futures::")):
                    bad.append("pushes to %s" % rt[:40])
                if any(s in fn for s in ("Builder::load", "Builder::visit")):
                    bad.append("calls %s" % fn)
                if n["name"] in ("insert", "get_mut", "remove", "entry") and field_of(n["recv"]) in ("module_slots", "redirects"):
                    key = peel_value(n["args"][0])
                    ok = False
                    if item and any(k_.get("k") == "Field" and k_["field"] == "specifier" and peel(k_["e"]).get("lid") == item["lid"] for y_ in through_locals(n["args"][0]) for k_ in [peel_value(y_)]):
                        ok = True
                    elif key.get("res") == "local":
                        # bound in an arm guarded by `<key> == item.specifier`
                        for g in guards_at(F, n, stop_at=lp):
                            if g.kind == "cond" and g.pol and g.node.get("k") == "Binary" and g.node["op"] == "==":
                                l, r = peel_value(g.node["l"]), peel_value(g.node["r"])
                                if l.get("lid") == key.get("lid") and r.get("field") == "specifier" and item and peel(r["e"]).get("lid") == item["lid"]:
                                    ok = True
                    if not ok:
                        bad.append("writes %s under key `%s`, not the completed item's own specifier" % (field_of(n["recv"]), expr_text(n["args"][0])))
            R.ob("C04-b", "completion-ordered consumer of %s.%s only performs writes keyed by the completed item" % (adt, fname), not bad,
                 "; ".join(bad), where(c))

    # any other value of type FuturesUnordered (locals, collect targets) is a
    # completion-ordered stream too: its consumer must not be positional
    fields_ok = {f for _, f in unordered}
    n_fu = 0
    for b in F.bodies:
        if b.get("derived"):
            continue
        for n in b["_nodes"]:
            t = F.ty(n) or ""
            if not t.startswith("futures::stream::FuturesUnordered<") or n["k"] in ("Pat", "Path", "LetStmt"):
                continue
            if n["k"] == "Field" and n["field"] in fields_ok:
                continue
            if n["k"] == "Call" and (n.get("fn") or "").endswith("Default::default"):
                continue
            n_fu += 1
            verdict, detail = consumer(F, n)
            R.ob("C04-b", "completion-ordered stream built in %s is consumed order-insensitively" % b["path"], verdict == "insensitive",
                 "a FuturesUnordered built here is consumed by %s: results arrive in completion order, so anything positional (zip with the inputs, Vec order) depends on the schedule" % detail,
                 where(n), key="C04|C04-b|FuturesUnordered|%s" % b["path"])
    R.analysed["adhoc_futures_unordered_values"] = n_fu

    # ---------------- C04-c ------------------------------------------------
    REQUIRED = {
        ("graph::ModuleGraph", "module_slots"): "std::collections::BTreeMap<",
        ("graph::ModuleGraph", "redirects"): "std::collections::BTreeMap<",
        ("graph::ModuleGraph", "roots"): "indexmap::IndexSet<",
        ("graph::ModuleGraph", "imports"): "indexmap::IndexMap<",
        ("graph::JsModule", "dependencies"): "indexmap::IndexMap<",
        ("graph::GraphImport", "dependencies"): "indexmap::IndexMap<",
        ("packages::PackageSpecifiers", "package_reqs"): "std::collections::BTreeMap<",
        ("packages::PackageSpecifiers", "packages"): "std::collections::BTreeMap<",
        ("packages::PackageSpecifiers", "top_level_packages"): "std::collections::BTreeSet<",
        ("packages::PackageSpecifiers", "used_yanked_packages"): "std::collections::BTreeSet<",
    }
    for (adt, fname), pref in REQUIRED.items():
        a = F.adt(adt)
        fs = [f for f in a["variants"][0]["fields"] if f["name"] == fname]
        if not fs:
            R.anchor_lost("C04-c", "%s.%s" % (adt, fname))
            continue
        t = F.types[fs[0]["ty"]]
        R.ob("C04-c", "%s.%s is an ordered container" % (adt, fname), t.startswith(pref) or (ORDERED_OK.match(t) and not HASH_COLL.match(t)),
             "observable state %s.%s has type %s: iteration / serialisation order would vary between runs" % (adt, fname, t[:80]), a["file"])
    SER_EXEMPT = {
        ("analysis::ImportAttributes", "0"): "Import.attributes is not part of graph output; consumers deserialise back into a map (lookups only)",
        ("packages::JsrPackageInfo", "versions"): "registry input type; Serialize exists for test fixtures / caches that deserialise back into a map",
        ("packages::JsrPackageVersionInfo", "manifest"): "registry input type; same",
        ("source::LoadResponse", "maybe_headers"): "loader response (input), not graph output",
    }
    n_ser = 0
    for p, a in F.adts.items():
        if not any(i["trait"].endswith("::Serialize") for i in a["impls"]):
            continue
        ast = F.ast_adts.get(p, {})
        for v in a["variants"]:
            for f in v["fields"]:
                t = F.types[f["ty"]]
                if "std::collections::HashMap<" not in t and "std::collections::HashSet<" not in t:
                    continue
                n_ser += 1
                # serde(skip / skip_serializing)?
                attrs = []
                if ast.get("kind") == "struct":
                    attrs = [x for ff in ast["fields"] if ff["name"] == f["name"] for x in ff["attrs"]]
                else:
                    for vv in ast.get("variants", []):
                        if vv["name"] == v["name"]:
                            attrs = [x for ff in vv["fields"] if ff["name"] == f["name"] for x in ff["attrs"]]
                skipped = any(re.search(r"serde\(.*\bskip(_serializing)?\b(?!_if)", x) for x in attrs)
                if skipped:
                    R.ob("C04-c", "%s.%s (hash collection) is skipped when serialising" % (p, f["name"]), True)
                elif (p, f["name"]) in SER_EXEMPT:
                    R.ob("C04-c", "%s.%s serialises a hash collection — reviewed" % (p, f["name"]), True, SER_EXEMPT[(p, f["name"])])
                else:
                    R.violation("C04-c", "%s.%s" % (p, f["name"]), "Serialize type exposes std hash collection field `%s: %s` without skip: serialised order varies between runs" % (f["name"], t[:60]), a["file"])
    R.floor("C04-c hash-typed fields of Serialize types", n_ser, 4)

    # ---------------- C04-d ------------------------------------------------
    fm = F.body("graph::fill_module_dependencies")
    calls = calls_in(fm["body"], ["analyze_dynamic_arg_template_parts"])
    R.floor("C04-d directory expansion call sites", len(calls), 1)
    for c in calls:
        st = c
        while st is not None and st.get("k") != "LetStmt":
            st = st.get("_p")
        ok = False
        if st is not None and st["pat"].get("pk") == "bind":
            lid = st["pat"]["lid"]
            blk = st["_p"]
            sorts = [n for n in walk(blk) if n.get("k") == "MethodCall" and n["name"] in ("sort", "sort_unstable", "sort_by", "sort_by_key") and peel(n["recv"]).get("lid") == lid]
            uses = [u for u in walk(blk) if u.get("k") == "Path" and u.get("lid") == lid and not any(is_within(u, s) for s in sorts)]
            ok = bool(sorts) and all(may_reach(F, sorts[0], u) for u in uses)
        R.ob("C04-d", "directory expansion is sorted before any use", ok,
             "result of analyze_dynamic_arg_template_parts is used without / before `sort()`: OS directory order leaks into the graph", where(c))
