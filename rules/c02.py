"""C02 — validation fails exactly when a followed edge reaches a failure.

Decides:
  a. every Resolution-typed edge field the walker follows is also passed to
     `check_resolution` by the error iterator.
  b. `check_resolution`: the `Resolution::Err` arm always yields the error,
     `Resolution::None` is the only constant-None arm, no catch-all.
  c. the policy errors (https->http downgrade, remote importing file:,
     missing-dynamic) are constructed in `check_resolution` under the stated
     scheme conditions.
  d. module errors of visited entries are surfaced unless (follow_dynamic &&
     Missing).
  e. no false failures: the type resolution is only checked when the module is
     type-checked, dependency checks only for static deps or follow_dynamic,
     the types dependency only when types are included.
  f. `valid()` walks code-only, without dynamic edges.
"""
from .lib import *
from .lib import _tail_values

EXPLANATION = (
    "Edge coverage between the walker and the error iterator (T1), arm tables of check_resolution and of the error "
    "iterator (T8), producer existence for policy errors (T3) and guard dominance of every check_resolution call (T5)."
)
EXPLANATION += " " + "Plus: the is_dynamic argument handed to check_resolution per edge kind, and the walker's own selection rules (shared with C15)."
NOT_DECIDED = "the 'iff' as a whole (needs reachability over data); the wording of the reported referrer"
CONFIGS = ["default", "nofastcheck"]  # thorough tier also analyses the build without fast_check / symbols
ASSUMPTIONS = []

EI = "<graph::ModuleGraphErrorIterator as std::iter::Iterator>::next"


def res_fields(F, root):
    out = set()
    for n in walk(root):
        if n.get("k") == "Field" and "graph::Resolution" in (F.ty(n) or "") and not (F.ty(n) or "").startswith("std::option::Option<"):
            out.add((n.get("adt"), n["field"]))
    return out


def run(F, R, tier):
    _round6(F, R)
    en = F.body(EI)
    cr = F.body("graph::ModuleGraphErrorIterator::check_resolution")
    # ---------------- C02-a ------------------------------------------------
    walker = set()
    for b in F.bodies:
        if b.get("self_adt") == "graph::ModuleEntryIterator" and not b.get("derived"):
            walker |= res_fields(F, b["body"])
    calls = [n for n in en["_nodes"] if callee_matches(n, ["ModuleGraphErrorIterator::check_resolution"])]
    R.floor("C02-a check_resolution calls", len(calls), 3)
    checked = set()
    for c in calls:
        checked |= res_fields(F, c["args"][3])
    R.floor("C02-a Resolution fields followed by the walker", len(walker), 3)
    for f in sorted(walker, key=str):
        R.ob("C02-a", "edge %s.%s followed by the walk is checked for resolution errors" % f, f in checked,
             "the walk follows `%s.%s` but ModuleGraphErrorIterator::next never passes it to check_resolution: a failed resolution on that edge kind is silently skipped" % f, en["file"])
        R.sample({"rule": "C02-a", "edge": "%s.%s" % f, "checked": f in checked})

    # ---------------- C02-b ------------------------------------------------
    ms = [n for n in walk(cr["body"]) if n["k"] == "Match" and tyc(F, n["scrut"], "graph::Resolution") and peel(n["scrut"]).get("res") == "local"]
    if R.ob("C02-b", "check_resolution matches on the resolution", len(ms) == 1, "shape changed", cr["file"]):
        m = ms[0]
        covered = set()
        ca = False
        for arm in m["arms"]:
            v, c = pat_variants(arm["pat"])
            covered |= v
            ca = ca or c
            vals = []
            _tail_values(F, arm["body"], vals)
            for r_ in walk(arm["body"], into_closures=False):
                if r_["k"] == "Ret" and "e" in r_:
                    _tail_values(F, r_["e"], vals)
            name = (sorted(v) or ["_"])[0].split("::")[-1]
            if name == "Err":
                ok = bool(vals) and all(ctor_of(x) == "std::option::Option::Some" for x in vals)
                R.ob("C02-b", "a failed resolution is always reported", ok, "the Resolution::Err arm can yield `%s`" % [expr_text(x)[:30] for x in vals], where(arm["body"]))
            elif name == "None":
                ok = all(ctor_of(x) == "std::option::Option::None" for x in vals)
                R.ob("C02-b", "an absent resolution is never an error", ok, "Resolution::None yields an error", where(arm["body"]))
            elif name == "Ok":
                nones = [x for x in vals if ctor_of(x) == "std::option::Option::None"]
                somes = [x for x in vals if ctor_of(x) == "std::option::Option::Some"]
                other = [x for x in vals if x not in nones and x not in somes and x.get("k") != "TryExit"]
                R.ob("C02-b", "a successful resolution yields policy errors or nothing", len(nones) >= 1 and len(somes) >= 1 and not other, "Ok arm yields something else than Some(policy error) / None: %s" % [expr_text(x)[:40] for x in other[:3]], where(arm["body"]))
        allv = {v["path"] for v in F.adt("graph::Resolution")["variants"]}
        R.ob("C02-b", "every resolution kind handled explicitly", covered >= allv and not ca, "catch-all or missing variant", where(m))

    # ---------------- C02-c ------------------------------------------------
    def site(variant):
        return [n for n in cr["_nodes"] if ctor_of(n) == variant]

    dg = site("graph::ResolutionError::InvalidDowngrade")
    if R.ob("C02-c", "https->http downgrade error has a producer in check_resolution", len(dg) == 1, "InvalidDowngrade is no longer constructed in check_resolution", cr["file"]):
        g = guards_at(F, dg[0])
        t = " && ".join(x.text() for x in g)
        ok = any(x.kind == "cond" and x.pol and x.node.get("k") == "Binary" and x.node["op"] == "==" and peel(x.node["r"]).get("v") == "https" and any(tyc(F, z.get("recv", {}).get("recv") if z.get("k") == "MethodCall" else None, "graph::Module") or (z.get("k") == "MethodCall" and z["name"] == "scheme" and any(tyc(F, w, "graph::Module") for w in walk(z))) for y in through_locals(x.node["l"]) for z in walk(y)) for x in g) and \
            any(x.kind == "cond" and x.pol and x.node.get("k") == "Binary" and x.node["op"] == "==" and peel(x.node["r"]).get("v") == "http" and any(z.get("k") == "MethodCall" and z["name"] == "scheme" and any(tyc(F, w, "graph::ResolutionResolved") for w in walk(z)) for y in through_locals(x.node["l"]) for z in walk(y)) for x in g)
        R.ob("C02-c", "downgrade error exactly for https referrer and http target", ok, "guards are: %s" % t[:200], where(dg[0]))
        # it is the first policy check: not guarded by follow_dynamic etc
        extra = [x for x in g if x.kind == "cond" and mentions_field(x.node, "follow_dynamic")]
        R.ob("C02-c", "downgrade check does not depend on walk options", not extra, "guarded by %s" % [x.text() for x in extra], where(dg[0]))
    li = site("graph::ResolutionError::InvalidLocalImport")
    if R.ob("C02-c", "remote-imports-file error has a producer in check_resolution", len(li) == 1, "InvalidLocalImport is no longer constructed in check_resolution", cr["file"]):
        g = guards_at(F, li[0])
        def scheme_of(e, ty):
            return any(z.get("k") == "MethodCall" and z["name"] == "scheme" and any(tyc(F, w, ty) for w in walk(z)) for y in through_locals(e) for z in walk(y))
        ok_ref = any(x.kind == "pat" and x.pol and scheme_of(x.scrut, "graph::Module") and set(re.findall(r"'(\w+)'", pat_text(x.pat))) == {"https", "http"} for x in g)
        ok_spec = any(x.kind == "pat" and x.pol and scheme_of(x.scrut, "graph::ResolutionResolved") and set(re.findall(r"'(\w+)'", pat_text(x.pat))) == {"file"} for x in g)
        ok_lit = any(x.kind == "cond" and x.pol and any(y.get("k") == "MethodCall" and y["name"] == "starts_with" and peel(y["args"][0]).get("v") == "file://" for y in walk(x.node)) for x in g)
        R.ob("C02-c", "local-import error for remote referrer, file target, literal file: text", ok_ref and ok_spec and ok_lit, "guards: %s" % [x.text()[:60] for x in g], where(li[0]))
        extra = [x for x in g if x.kind == "cond" and mentions_field(x.node, "follow_dynamic")]
        R.ob("C02-c", "local-import check does not depend on walk options", not extra, "guarded by %s" % [x.text() for x in extra], where(li[0]))
    md = site("graph::ModuleErrorKind::MissingDynamic")
    if R.ob("C02-c", "missing-dynamic error has a producer in check_resolution", len(md) == 1, "MissingDynamic no longer constructed", cr["file"]):
        g = guards_at(F, md[0])
        R.ob("C02-c", "missing-dynamic only when following dynamic edges, for dynamic imports of a Missing module",
             any(x.kind == "cond" and x.pol and peel(x.node).get("field") == "follow_dynamic" for x in g) and any(x.kind == "cond" and x.pol and peel(x.node).get("res") == "local" and tyc(F, x.node, "bool") and any(p_.get("lid") == peel(x.node).get("lid") for p_ in cr["body"]["params"]) for x in g) and any(x.kind == "pat" and x.pol and "ModuleErrorKind::Missing" in pat_text(x.pat) for x in g),
             "guards: %s" % [x.text()[:60] for x in g], where(md[0]))

    # the in-place missing-module lookup must follow redirects (the error
    # iterator ignores Err(Missing) entries when follow_dynamic is on, relying on it)
    S = Slicer(F, sources=["ModuleGraph::resolve"])
    lk = [n for n in cr["_nodes"] if n.get("k") == "MethodCall" and n["name"] == "get" and field_of(n["recv"]) == "module_slots"]
    R.floor("C02-c module_slots lookups in check_resolution", len(lk), 1)
    for n in lk:
        leaves = S.origins(n["args"][0])
        R.ob("C02-c", "in-place missing-module lookup follows redirects", bool(leaves) and all(l.kind == "src" for l in leaves),
             "check_resolution looks up `%s` without ModuleGraph::resolve: a missing module behind a redirect is neither reported in place nor (with follow_dynamic) as an entry" % expr_text(n["args"][0]), where(n))

    # ---------------- C02-d ------------------------------------------------
    mm = [n for n in walk(en["body"]) if n["k"] == "Match" and tyc(F, n["scrut"], "graph::ModuleEntryRef") and not tyc(F, n["scrut"], "Option<")]
    if R.ob("C02-d", "error iterator matches on the entry", len(mm) == 1, "shape changed", en["file"]):
        covered = set()
        ca = False
        for arm in mm[0]["arms"]:
            v, c = pat_variants(arm["pat"])
            covered |= v
            ca = ca or c
            if "ModuleEntryRef::Err" in pat_text(arm["pat"]):
                def hook(c_):
                    c_ = peel(c_)
                    if c_.get("res") == "local" and any("ModuleErrorKind::Missing" in pat_text(z["arms"][0]["pat"]) for y in through_locals(c_) for z in walk(y) if z.get("k") == "Match" and "matches" in (z.get("mac") or [])):
                        return (True, False)
                    return None
                pushes = lambda n: n.get("k") == "MethodCall" and n["name"] == "push" and field_of(n["recv"]) == "next_errors"
                fl = Flow(F, pushes, cond_hook=hook)
                fl.run(arm["body"], False)
                bad = [1 for k_, n_, st in fl.exits if st is False]
                R.ob("C02-d", "a visited error entry is reported unless deliberately ignored", not bad, "a path through the Err arm neither pushes the error nor is the should_ignore path", where(arm["body"]))
                si = [n for n in walk(arm["body"]) if n.get("k") == "LetStmt" and "init" in n and tyc(F, n["pat"], "bool") and any(z.get("k") == "Match" and "matches" in (z.get("mac") or []) for z in walk(n["init"]))]
                ok = False
                if si:
                    conds = []
                    split_cond(si[0]["init"], True, conds)
                    ok = any(x.kind == "cond" and x.pol and any(mentions_field(y, "follow_dynamic") for y in through_locals(x.node)) for x in conds) and any(x.kind == "pat" and x.pol and "ModuleErrorKind::Missing" in pat_text(x.pat) and "MissingDynamic" not in pat_text(x.pat) for x in conds) and len([x for x in conds if x.kind == "cond"]) <= 2
                R.ob("C02-d", "only Missing errors are ignored, and only when dynamic edges are followed (reported in place)", ok, "should_ignore changed", where(arm["body"]))
        allv = {v["path"] for v in F.adt("graph::ModuleEntryRef")["variants"]}
        R.ob("C02-d", "every entry kind handled explicitly", covered >= allv and not ca, "catch-all or missing entry kind", where(mm[0]))

    # ---------------- C02-e ------------------------------------------------
    for c in calls:
        rk = expr_text(c["args"][1])
        fld = sorted(res_fields(F, c["args"][3]), key=str)
        g0 = guards_at(F, c)
        g = expand_local_guards(F, g0, en)
        txt = [x.text() for x in g]
        name = "%s / %s" % (rk.split("::")[-1], fld[0][1] if fld else "?")
        if fld and fld[0][1] == "maybe_type":
            R.ob("C02-e", "type resolution checked only when the module is type-checked [%s]" % name, any(x.kind == "cond" and x.pol and (x.node.get("fn") or "").endswith("GraphKind::include_types") for x in g) and any(x.kind == "cond" and x.pol and (x.node.get("fn") or "").endswith("is_checkable") for x in g),
                 "check of dep.maybe_type not dominated by check_types: a type-only failure would fail code validation", where(c))
        if fld and fld[0][1] in ("maybe_type", "maybe_code"):
            ok = any(x.kind == "cond" and x.pol and x.node.get("k") == "Binary" and x.node["op"] == "||" and any(mentions_field(y, "follow_dynamic") for z in (x.node["l"], x.node["r"]) for y in through_locals(z)) and mentions_field(x.node, "is_dynamic", "graph::Dependency") for x in g)
            R.ob("C02-e", "dependency checked only if static or follow_dynamic [%s]" % name, ok, "check not dominated by `follow_dynamic || !dep.is_dynamic`: an unfollowed dynamic edge's failure would fail validation", where(c))
            if fld[0][1] == "maybe_code":
                R.ob("C02-e", "code resolution check is not conditional on types [%s]" % name, not any(x.kind == "cond" and ((x.node.get("fn") or "").endswith("GraphKind::include_types") or (x.node.get("fn") or "").endswith("is_checkable")) for x in g), "code check guarded by a types condition", where(c))
        if fld and fld[0][1] == "dependency":
            R.ob("C02-e", "types dependency checked only when types are included [%s]" % name, any(x.kind == "cond" and x.pol and (x.node.get("fn") or "").endswith("GraphKind::include_types") for x in g),
                 "check of maybe_types_dependency not dominated by kind.include_types()", where(c))
        # every Some(err) result is pushed
        gpat = [x for x in g]
    # each check_resolution result is pushed when Some
    for c in calls:
        p = c["_p"]
        # `let Some(err) = self.check_resolution(..)` inside an if-let chain whose then-block pushes err
        anc = [a for a in k_ancestors(c) if a["k"] == "If"]
        ok = False
        for a in anc:
            if is_within(c, a["cond"]):
                ok = any(n.get("k") == "MethodCall" and n["name"] == "push" and field_of(n["recv"]) == "next_errors" for n in walk(a["then"]))
                break
        R.ob("C02-e", "a reported resolution error is queued for the caller", ok, "result of check_resolution is dropped", where(c))

    # the error listing reads the same dependency set the walk follows
    from . import c15 as _c15
    nxw = F.body("<graph::ModuleEntryIterator as std::iter::Iterator>::next")
    def dep_selection(b):
        sel = [n for n in b["_nodes"] if callee_matches(n, ["Module::dependencies_prefer_fast_check"])]
        out = []
        for n in sel:
            g = expand_local_guards(F, guards_at(F, n), b)
            out.append((any(x.kind == "cond" and x.pol and peel(x.node).get("field") == "prefer_fast_check_graph" or (x.kind == "cond" and x.pol and any(mentions_field(y, "prefer_fast_check_graph") for y in through_locals(x.node))) for x in g),
                        any(x.kind == "cond" and x.pol and (x.node.get("fn") or "").endswith("GraphKind::include_types") for x in g),
                        any(x.kind == "cond" and x.pol and (x.node.get("fn") or "").endswith("is_checkable") for x in g)))
        return out
    sw, se = dep_selection(nxw), dep_selection(en)
    R.ob("C02-e", "walker and error listing select fast-check dependencies under the same conditions", sw == se and se == [(True, True, True)],
         "walker selects fast-check dependencies under %s, the error listing under %s (prefer_fast_check, include_types, is_checkable): errors of edges the walk follows would not be looked up" % (sw, se), en["file"])
    # the types-only substitution never hides a failed types dependency
    for c_ in [n for n in nxw["_nodes"] if n["k"] == "Continue"]:
        g = guards_at(F, c_)
        sub = any(x.kind == "pat" and x.pol and "graph::Resolution::Ok" in pat_text(x.pat) for x in g)
        unchk = any(x.kind == "cond" and not x.pol and (x.node.get("fn") or "").endswith("is_checkable") for x in g)
        R.ob("C02-e", "a module is left out of a types-only walk only if its types dependency resolved, or it is unchecked JS", sub or unchk,
             "a module can be skipped although its types dependency failed to resolve: that failure is never reported", where(c_))

    # the dynamic-import leniency (a missing module is tolerated when dynamic edges are not
    # followed) applies to dynamic dependencies only: check_resolution is told `dep.is_dynamic`
    # for dependencies and `false` for a module's own types dependency
    crs = [n for n in en["_nodes"] if callee_matches(n, ["ModuleGraphErrorIterator::check_resolution"])]
    R.floor("C02-e check_resolution calls in the error listing", len(crs), 3)
    for c in crs:
        a = call_args(c)
        dyn = peel_value(a[-1])
        dep_arg = [peel_value(x) for x in a[1:-1]]
        from_dep = any(x.get("k") == "Field" and tyc(F, x.get("e"), "graph::Dependency") and not tyc(F, x.get("e"), "TypesDependency") for x in dep_arg)
        if from_dep:
            ok = dyn.get("k") == "Field" and dyn["field"] == "is_dynamic" and dyn.get("adt") == "graph::Dependency"
            what = "a dependency's resolution is checked with that dependency's own is_dynamic"
        else:
            ok = dyn.get("k") == "Lit" and dyn.get("v") is False
            what = "a module's types dependency is never treated as a dynamic import"
        # the resolution kind named in the call agrees with the resolution that is checked
        kind_arg = [ctor_of(peel(x)) for x in a[1:] if (ctor_of(peel(x)) or "").startswith("source::ResolutionKind::")]
        res_arg = [peel_value(x) for x in a[1:] if peel_value(x).get("k") == "Field" and peel_value(x)["field"] in ("maybe_code", "maybe_type", "dependency")]
        if kind_arg and res_arg:
            want = "source::ResolutionKind::Execution" if res_arg[0]["field"] == "maybe_code" else "source::ResolutionKind::Types"
            R.ob("C02-e", "`%s` is checked as a %s resolution" % (res_arg[0]["field"], want.split("::")[-1]), kind_arg[0] == want,
                 "check_resolution(%s, .., %s): the policy errors (local import, https->http) and the message are built for the wrong kind of edge" % (kind_arg[0].split("::")[-1], expr_text(res_arg[0])), where(c))
        R.ob("C02-e", what, ok, "check_resolution(.., %s): the missing-dynamic-import leniency would be applied to (or withheld from) the wrong edges, so a reachable failure is skipped or an unfollowed one reported" % expr_text(a[-1]), where(c))

    # ---------------- C02-w ------------------------------------------------
    # the error listing can only report what the walk yields: a specifier that
    # is marked seen without being queued is skipped with everything below it
    from . import c15
    wb = [b for b in F.bodies if b.get("self_adt") == "graph::ModuleEntryIterator" and not b.get("derived")]
    c15.walker_enqueue(F, R, wb, tag="C02-w", pid="C02")
    c15.walker_selection(F, R, wb, tag="C02-w")

    # ---------------- C02-f ------------------------------------------------
    va = F.body("graph::ModuleGraph::valid")
    wo = [n for n in va["_nodes"] if n["k"] == "Struct" and n.get("adt") == "graph::WalkOptions"]
    if R.ob("C02-f", "valid() builds its walk options", len(wo) == 1, "shape changed", va["file"]):
        f = {x["name"]: peel(x["e"]) for x in wo[0]["fields"]}
        R.ob("C02-f", "default validation does not follow dynamic edges", f["follow_dynamic"].get("v") is False, "follow_dynamic is %s" % expr_text(f["follow_dynamic"]), where(wo[0]))
        R.ob("C02-f", "default validation is code-only", ctor_of(f["kind"]) == "graph::GraphKind::CodeOnly", "kind is %s" % expr_text(f["kind"]), where(wo[0]))
    R.ob("C02-f", "valid() validates the walk from the graph's roots", any(callee_matches(n, ["ModuleEntryIterator::validate"]) for n in va["_nodes"]) and any(n.get("k") == "Field" and n["field"] == "roots" for n in va["_nodes"]), "valid() shape changed", va["file"])
    vd = F.body("graph::ModuleEntryIterator::validate")
    vals = return_values(F, vd)
    R.ob("C02-f", "validate() fails iff the error listing is non-empty", any(ctor_of(v) == "std::result::Result::Err" for v in vals) and any(ctor_of(v) == "std::result::Result::Ok" for v in vals) and any(n.get("k") == "MethodCall" and n["name"] == "next" for n in vd["_nodes"]),
         "validate() shape changed", vd["file"])


def _round6(F, R):
    # C02-c: the in-place missing-module lookup is made for every edge kind when
    # dynamic edges are followed (next() drops Missing entries then and relies on it)
    cr = F.body("graph::ModuleGraphErrorIterator::check_resolution")
    gets = [n for n in cr["_nodes"] if n.get("k") == "MethodCall" and n["name"] == "get" and field_of(n["recv"]) == "module_slots"]
    R.floor("C02-c module_slots lookups in check_resolution (round 6)", len(gets), 1)
    is_dyn_lids = {p.get("lid") for p in cr["body"]["params"] if p.get("name") == "is_dynamic" or (F.tystr(p.get("t")) == "bool")}
    for n in gets:
        g = guards_at(F, n)
        tab = guard_table(g, [("is_dynamic", lambda y: peel_value(y).get("res") == "local" and peel_value(y).get("lid") in is_dyn_lids),
                              ("follow_dynamic", lambda y: field_of(y) == "follow_dynamic")])
        ok = all(reach == f for (d, f), reach in tab.items())
        R.ob("C02-c", "the in-place missing-module lookup runs for static and dynamic edges alike whenever dynamic edges are followed", ok,
             "the lookup of the target's slot in check_resolution also depends on `is_dynamic` (reachability table %s): with follow_dynamic a statically imported missing module is reported nowhere (next() suppresses Missing entries and relies on this lookup)" % sorted(tab.items()),
             where(n), key="C02|C02-c|missing-lookup-depends-on-is_dynamic")
