//! Tiny positive / negative examples for the rule-engine primitives. Compiled
//! through the same dgfacts driver; `tools/engine_selftest.py` requires every
//! primitive to give the recorded verdict on these functions on every run, so
//! that an expected-zero rule cannot pass because its matcher went blind.
#![allow(dead_code, unused_variables, clippy::all)]

use std::collections::{BTreeMap, HashMap, HashSet};

pub struct Loader;
pub struct Options {
  pub checksum: Option<String>,
  pub flag: bool,
}
impl Loader {
  pub fn load(&self, _spec: &str, _o: Options) -> Option<String> {
    None
  }
}
pub fn lookup(_k: &str) -> Option<String> {
  None
}
pub fn untrusted() -> Vec<String> {
  vec![]
}
pub fn target(_x: u32) {}
pub fn other(_x: u32) {}

// ---- T6 -------------------------------------------------------------------
pub fn t6_sensitive(m: &HashMap<String, u32>) -> Vec<u32> {
  let mut out = Vec::new();
  for (_k, v) in m {
    out.push(*v);
  }
  out
}
pub fn t6_insensitive(m: HashMap<String, u32>, into: &mut BTreeMap<String, u32>) {
  for (k, v) in m {
    into.entry(k).or_insert(v);
  }
}
pub fn t6_collect_vec(m: &HashSet<u32>) -> Vec<u32> {
  m.iter().cloned().collect::<Vec<_>>()
}
pub fn t6_any(m: &HashSet<u32>) -> bool {
  m.iter().any(|x| *x > 3)
}

// ---- T2 must-pass ------------------------------------------------------------
pub fn t2_all_paths(c: bool) {
  if c {
    target(1);
  } else {
    target(2);
  }
}
pub fn t2_one_path_misses(c: bool, d: bool) {
  if c {
    target(1);
  } else if d {
    return;
  }
  other(0);
}
pub fn t2_question_mark(x: Option<u32>) -> Option<u32> {
  let v = x?;
  target(v);
  Some(v)
}
pub fn t2_loop_may_skip(xs: &[u32]) {
  for x in xs {
    target(*x);
  }
}
pub fn t2_let_else(x: Option<u32>) {
  let Some(v) = x else {
    return;
  };
  target(v);
}

// ---- T5 guards ------------------------------------------------------------------
pub fn t5_guards(a: bool, b: Option<u32>, s: &HashSet<u32>) {
  if !a {
    return;
  }
  if let Some(v) = b
    && !s.contains(&v)
  {
    target(v); // guarded by: a, b matches Some, !contains
  } else {
    other(1); // not guarded by the let
  }
  match b {
    Some(3) => other(3),
    Some(_) => target(9), // guarded by b matches Some(_), b !matches Some(3)
    None => {}
  }
}
pub fn t5_matches(k: &str) {
  if matches!(k, "a" | "b") {
    target(1);
  }
}

// ---- T4 provenance ------------------------------------------------------------------
pub fn t4_from_source(l: &Loader, key: &str) {
  let mut c = None;
  if c.is_none() {
    c = lookup(key);
  }
  let o = Options { checksum: c.clone(), flag: true };
  l.load(key, o);
}
pub fn t4_dropped(l: &Loader, key: &str) {
  let _known = lookup(key);
  l.load(key, Options { checksum: None, flag: false });
}
fn helper(l: &Loader, key: &str, c: Option<String>) {
  l.load(key, Options { checksum: c, flag: false });
}
pub fn t4_interproc(l: &Loader, key: &str) {
  helper(l, key, lookup(key));
  helper(l, key, lookup(key).filter(|s| !s.is_empty()));
}

// ---- PU ------------------------------------------------------------------------------------
pub fn pu_tainted() -> usize {
  let v = untrusted();
  let first = v.first().unwrap(); // tainted unwrap
  let n: usize = first.parse().unwrap(); // tainted unwrap
  let arr = [1usize, 2, 3];
  arr[n] // tainted index
}
pub fn pu_clean() -> u32 {
  let x: Option<u32> = Some(1);
  x.unwrap()
}

// ---- ordering / counting ---------------------------------------------------------------------------
pub fn ord(c: bool) {
  target(1);
  if c {
    other(2);
  } else {
    other(3);
  }
  target(4);
}
pub fn count_once_or_twice(c: bool) {
  target(1);
  if c {
    target(2);
  }
}

// ---- T7 recursion -----------------------------------------------------------------------------------
pub fn rec_guarded(n: u32, seen: &mut HashSet<u32>) {
  if !seen.insert(n) {
    return;
  }
  rec_guarded(n / 2, seen);
}
pub fn rec_fresh(n: u32, seen: &mut HashSet<u32>) {
  if !seen.insert(n) {
    return;
  }
  rec_fresh(n / 2, &mut HashSet::new());
}
pub fn rec_unguarded(n: u32) {
  if n > 0 {
    rec_unguarded(n - 1);
  }
}

// ---- unsafe / casts ------------------------------------------------------------------------------------
pub fn has_unsafe(p: *const u8) -> u8 {
  unsafe { *p }
}
