#!/usr/bin/env python3
"""dbg.py facts <patch.diff> <out.json>   — fact file of /repo + patch (scratch copy)
   dbg.py run <facts.json> C15 [C02 ...]  — run rule sets over a kept fact file, print violations"""
import os, sys, shutil, subprocess, importlib, importlib.machinery, importlib.util
VERIF = os.path.dirname(os.path.dirname(os.path.abspath(__file__)))
sys.path.insert(0, VERIF); sys.path.insert(0, os.path.join(VERIF, "tools"))
def chk():
    loader = importlib.machinery.SourceFileLoader("check", os.path.join(VERIF, "check"))
    spec = importlib.util.spec_from_loader("check", loader)
    m = importlib.util.module_from_spec(spec); loader.exec_module(m); return m
if sys.argv[1] == "facts":
    from mutants import scratch_copy
    sc = scratch_copy()
    try:
        if sys.argv[2] != "-":
            r = subprocess.run(["patch", "-p1", "-s", "-i", os.path.abspath(sys.argv[2])], cwd=sc, capture_output=True, text=True)
            assert r.returncode == 0, r.stdout
        os.environ["VERIF_CACHE_DIR"] = os.path.join(VERIF, ".cache", "selftest")
        m = chk()
        m.CACHE = os.environ["VERIF_CACHE_DIR"]
        fact, dt, line = m.run_driver("default", repo=sc, tag="dbg-")
        shutil.copy(fact, sys.argv[3]); print(line)
    finally:
        shutil.rmtree(sc, ignore_errors=True)
else:
    from rules import lib
    F = lib.Facts(sys.argv[2])
    print("inlined:", F.inlined[:20])
    for pid in sys.argv[3:]:
        R = lib.Report(pid); R.config = "default"
        mod = importlib.import_module("rules." + pid.lower())
        try:
            mod.run(F, R, "quick")
        except lib.AnchorLost as e:
            print("ANCHOR-LOST", e)
        for v in R.violations:
            print(pid, v["key"], "\n     ", v["where"], "\n     ", v["msg"][:300])
        print(pid, "obligations", len(R.obligations), "violations", len(R.violations))
