#!/bin/sh
# usage: mkworktree.sh <name>   -> /tmp/wt-<name> (git worktree of /repo HEAD with a warm target dir copy)
set -e
d=/tmp/wt-$1
git -C /repo worktree add --detach "$d" HEAD >/dev/null 2>&1
cp -r /repo/target "$d/target"
echo "$d"
