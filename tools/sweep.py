#!/usr/bin/env python3
"""Systematic checker self-test ("sweep"): generate small syntactic edits
inside the code each property is anchored in, and sort them into

  does-not-compile   discarded
  caught             some check reports a violation              (good)
  killed-by-tests    silent, but the pinned test suite fails     (uninteresting:
                     a change the suite already rejects)
  SURVIVOR           silent AND the suite passes                 (triage!)

A survivor is either behaviour-preserving / irrelevant to the property (then it
is recorded with a reason in sweep/triage.json) or a hole in the rules (then a
rule is added).  The sweep therefore measures how much of the anchored code is
covered by *some* obligation, independently of the hand-written mutants.

The checks themselves never run deno_graph; this tool does run the pinned test
suite, but only to decide whether a silent edit is worth triaging — its result
is never evidence for a property.

  tools/sweep.py gen [C05 ...] [--per 40] [--seed 1]     -> sweep/plan.jsonl
  tools/sweep.py run --workers /tmp/w1,/tmp/w2 [--limit N] [--props all|own]
  tools/sweep.py report
"""
import difflib
import hashlib
import json
import os
import random
import re
import subprocess
import sys
import threading
import time

VERIF = os.path.dirname(os.path.dirname(os.path.abspath(__file__)))
REPO = os.environ.get("VERIF_REPO", "/repo")
SW = os.path.join(VERIF, "sweep")
BASE_COMMIT = None  # pinned commit = parent of the first fix: commit


def sh(cmd, **kw):
    return subprocess.run(cmd, shell=isinstance(cmd, str), capture_output=True, text=True, **kw)


def base_commit():
    global BASE_COMMIT
    if BASE_COMMIT:
        return BASE_COMMIT
    log = sh("git -C %s log --format='%%H %%s'" % REPO).stdout.splitlines()
    last_fix = None
    for i, l in enumerate(log):
        if l.split(" ", 1)[1].startswith("fix:"):
            last_fix = i
    BASE_COMMIT = log[last_fix + 1].split()[0] if last_fix is not None else log[0].split()[0]
    return BASE_COMMIT


_linemap = {}


def linemap(file):
    """old line number (pinned commit) -> current line number"""
    if file in _linemap:
        return _linemap[file]
    old = sh("git -C %s show %s:%s" % (REPO, base_commit(), file)).stdout.splitlines()
    new = open(os.path.join(REPO, file)).read().splitlines()
    m = {}
    sm = difflib.SequenceMatcher(None, old, new, autojunk=False)
    for tag, i1, i2, j1, j2 in sm.get_opcodes():
        if tag == "equal":
            for k in range(i2 - i1):
                m[i1 + k + 1] = j1 + k + 1
        else:
            for k in range(i2 - i1):
                m[i1 + k + 1] = min(j1 + k, j2) + 1
    _linemap[file] = (m, len(new))
    return _linemap[file]


def anchor_ranges(prop):
    out = []
    a = prop.get("anchors", {})
    for grp in ("mechanism", "state"):
        for it in a.get(grp, []) or []:
            w = it.get("where", "")
            for part in re.split(r",\s*(?=src/)", w):
                mm = re.match(r"(src/[\w/\.]+):([\d\-, ]+)$", part.strip())
                if not mm:
                    continue
                f = mm.group(1)
                for rng in mm.group(2).split(","):
                    rng = rng.strip()
                    if not rng:
                        continue
                    lo, _, hi = rng.partition("-")
                    lo = int(lo)
                    hi = int(hi) if hi else lo
                    if grp == "state" or hi == lo:
                        continue  # a declaration line: nothing to mutate
                    lm, n = linemap(f)
                    out.append((f, lm.get(lo, lo), lm.get(hi, hi), it.get("name", "")))
    return out


OPS = []


def op(name):
    def deco(fn):
        OPS.append((name, fn))
        return fn
    return deco


def code_part(line):
    """line without a trailing // comment (naive but string-aware enough)"""
    i = line.find("//")
    if i >= 0 and line[:i].count('"') % 2 == 0:
        return line[:i], line[i:]
    return line, ""


def sub_each(line, pat, repl):
    """one mutant per occurrence of pat in the code part of line"""
    code, cm = code_part(line)
    out = []
    for m in re.finditer(pat, code):
        r = m.expand(repl) if isinstance(repl, str) else repl(m)
        if r is None:
            continue
        out.append(code[: m.start()] + r + code[m.end():] + cm)
    return out


@op("eq-flip")
def _(l):
    return sub_each(l, r" == ", " != ") + sub_each(l, r" != ", " == ")


@op("and-or")
def _(l):
    return sub_each(l, r" && ", " || ") + sub_each(l, r"(?<![(,=]) \|\| (?![{|])", " && ")


@op("if-negate")
def _(l):
    m = re.match(r"^(\s*(?:\} else )?if )(?!let\b)([^{]+?)( \{\s*)$", l)
    if m and "let " not in m.group(2):
        c = m.group(2)
        if c.startswith("!") and re.match(r"^![\w\.\(\)]+$", c) and c.count("(") == c.count(")"):
            return [m.group(1) + c[1:] + m.group(3)]
        return [m.group(1) + "!(" + c + ")" + m.group(3)]
    return []


@op("bool-lit")
def _(l):
    return sub_each(l, r"\btrue\b", "false") + sub_each(l, r"\bfalse\b", "true")


@op("opt-pred")
def _(l):
    out = []
    for a, b in ((".is_some()", ".is_none()"), (".is_none()", ".is_some()"), (".is_ok()", ".is_err()"), (".is_err()", ".is_ok()")):
        out += sub_each(l, re.escape(a), b)
    return out


@op("rel-op")
def _(l):
    out = []
    for a, b in ((" < ", " <= "), (" <= ", " < "), (" > ", " >= "), (" >= ", " > ")):
        out += sub_each(l, re.escape(a), b)
    return out


@op("off-by-one")
def _(l):
    return sub_each(l, r" \+ 1\b", " + 0") + sub_each(l, r" - 1\b", " - 0") + sub_each(l, r" \+= 1\b", " += 0")


@op("some-to-none")
def _(l):
    m = re.match(r"^(\s*(?:.* => )?)Some\((.*)\)(,?\s*)$", l)
    if m and m.group(2).count("(") == m.group(2).count(")"):
        return [m.group(1) + "None" + m.group(3)]
    return []


@op("order")
def _(l):
    out = []
    for a, b in ((".min(", ".max("), (".max(", ".min("), (".first()", ".last()"), (".last()", ".first()"), (".push_back(", ".push_front("),
                 (".pop_front()", ".pop_back()"), (".pop_back()", ".pop_front()"), (".pop()", ".pop_front()")):
        out += sub_each(l, re.escape(a), b)
    out += sub_each(l, r"\.iter\(\)(?!\.rev)", ".iter().rev()")
    out += sub_each(l, r"\.into_iter\(\)(?!\.rev)", ".into_iter().rev()")
    return out


PAIRS = [("maybe_code", "maybe_type"), ("get_code()", "get_type()"), ("ResolutionKind::Execution", "ResolutionKind::Types"), ("GraphKind::TypesOnly", "GraphKind::CodeOnly"),
         ("include_types()", "include_code()"), ("CacheSetting::Only", "CacheSetting::Use"), ("CacheSetting::Reload", "CacheSetting::Use"), ("ImportedExports::Star)", "ImportedExports::StarWithDefault)"),
         ("is_root", "is_asset"), ("Namespaces::type_()", "Namespaces::value()"), ("ReferenceNamespace::Value", "ReferenceNamespace::Type"), (".start", ".end"), ("Resolution::None", "Resolution::Ok"),
         ("push_back(", "push_front("), ("first()", "last()"), ("ModuleSlot::Err", "ModuleSlot::Module"), ("in_dynamic_branch", "is_dynamic")]

PAIRS += [("is_dynamic", "is_asset"), ("CacheSetting::Only", "CacheSetting::Reload"), ("ModuleSlot::Pending", "ModuleSlot::Err"),
          ("follow_dynamic", "check_js"), ("prefer_fast_check_graph", "follow_dynamic"), ("is_type_only", "is_dynamic"), ("ImportKind::Es", "ImportKind::TsType"),
          ("DependencyKind::ImportType", "DependencyKind::Import"), ("Namespaces::all()", "Namespaces::value()"), ("Visibility::Public", "Visibility::Private")]
ONEWAY = [("kind.include_types()", "true"), ("requested_specifier", "specifier"), ("load_specifier", "specifier"), ("maybe_range", "maybe_referrer"), (".maybe_types", ".maybe_code"),
          ("ImportedExports::AllWithDefault", "ImportedExports::star()"), ("graph_kind.include_types()", "true"), ("graph_kind.include_code()", "true")]


@op("pair-swap")
def _(l):
    out = []
    for a, b in PAIRS:
        out += sub_each(l, r"(?<![\w])" + re.escape(a), b) if a[0].isalpha() else sub_each(l, re.escape(a), b)
        out += sub_each(l, r"(?<![\w])" + re.escape(b), a) if b[0].isalpha() else sub_each(l, re.escape(b), a)
    for a, b in ONEWAY:
        out += sub_each(l, r"(?<![\w\.])" + re.escape(a) + r"(?![\w])", b) if a[0].isalpha() else sub_each(l, re.escape(a) + r"(?![\w])", b)
    return out


def _split_top(cond, sep):
    """split `cond` at top-level occurrences of sep (' && ' / ' || ')"""
    parts, depth, cur, i = [], 0, "", 0
    while i < len(cond):
        ch = cond[i]
        if ch in "([{":
            depth += 1
        elif ch in ")]}":
            depth -= 1
        if depth == 0 and cond.startswith(sep, i):
            parts.append(cur)
            cur = ""
            i += len(sep)
            continue
        cur += ch
        i += 1
    parts.append(cur)
    return parts


@op("drop-conjunct")
def _(l):
    """`if a && b {` -> `if a {` / `if b {` (a guard weakened / strengthened by one operand)"""
    m = re.match(r"^(\s*(?:\} else )?(?:if|while) )(?!let\b)([^{]+?)( \{\s*)$", l)
    out = []
    if m and "let " not in m.group(2):
        for sep in (" && ", " || "):
            parts = _split_top(m.group(2), sep)
            if len(parts) > 1 and not (sep == " && " and any(" || " in x and not x.strip().startswith("(") for x in parts)):
                for k in range(len(parts)):
                    rest = parts[:k] + parts[k + 1:]
                    out.append(m.group(1) + sep.join(rest) + m.group(3))
                break
    return out


@op("neg-conjunct")
def _(l):
    m = re.match(r"^(\s*(?:\} else )?(?:if|while) )(?!let\b)([^{]+?)( \{\s*)$", l)
    out = []
    if m and "let " not in m.group(2):
        for sep in (" && ", " || "):
            parts = _split_top(m.group(2), sep)
            if len(parts) > 1:
                for k in range(len(parts)):
                    q = parts[k].strip()
                    if " || " in q or " && " in q:
                        continue
                    nq = q[1:] if q.startswith("!") and re.match(r"^![\w\.\(\):&]+$", q) else "!(" + q + ")"
                    out.append(m.group(1) + sep.join(parts[:k] + [nq] + parts[k + 1:]) + m.group(3))
                break
    return out


@op("chain-drop")
def _(l):
    """a refinement call removed from an iterator / option chain"""
    out = []
    code, cm = code_part(l)
    for name in ("rev", "skip", "take", "filter", "skip_while", "take_while", "dedup", "peekable", "fuse", "trim", "trim_start", "trim_end", "to_lowercase", "to_ascii_lowercase"):
        for m in re.finditer(r"\." + name + r"\(", code):
            depth, j = 0, m.end() - 1
            while j < len(code):
                if code[j] == "(":
                    depth += 1
                elif code[j] == ")":
                    depth -= 1
                    if depth == 0:
                        break
                j += 1
            if j < len(code) and depth == 0:
                out.append(code[: m.start()] + code[j + 1:] + cm)
    # a whole `.filter(..)` / `.rev()` line of a multi-line chain
    if re.match(r"^\s+\.(rev|skip|take|filter|skip_while|take_while)\(.*\)\s*$", code) and code.count("(") == code.count(")"):
        out.append("")
    return out


@op("first-last-wins")
def _(l):
    out = sub_each(l, r"\.entry\(([^()]*(?:\([^()]*\))?[^()]*)\)\.or_insert\(", r".insert(\1, ")
    out += sub_each(l, r"\.unwrap_or\(([^()]+)\)", lambda m: None)
    return out


@op("unwrap-default")
def _(l):
    return sub_each(l, r"\.unwrap_or_default\(\)", ".unwrap_or(true)") + sub_each(l, r"\.unwrap_or\(0\)", ".unwrap_or(1)")


@op("bound-shift")
def _(l):
    """slice / range bounds: `[a..b]` -> `[a..]`, `..=` <-> `..`"""
    return sub_each(l, r"\.\.=", "..") + sub_each(l, r"(?<=[\w\)])\.\.(?=[\w\(])", "..=")


@op("continue-break")
def _(l):
    return sub_each(l, r"\bcontinue;", "break;")


@op("drop-question-arm")
def _(l):
    # `.filter(..)`/`.take(..)`-style refinements removed is too type-fragile; skip
    return []


CALL_STMT = re.compile(r"^\s+(?!let\b|return\b|if\b|match\b|for\b|while\b|break\b|continue\b|Ok\b|Err\b|Some\b|//)[A-Za-z_][\w]*((\.|::)[\w]+)*(\.|::)?[\w]*\s*(\(|$|\.)")


def stmt_deletions(lines, lo, hi):
    """(start, end) 1-based inclusive line spans of expression statements that
    are a call chain ending in `;` with balanced brackets, up to 14 lines"""
    out = []
    i = lo
    while i <= hi:
        l = lines[i - 1]
        code, _ = code_part(l)
        if CALL_STMT.match(code) and not code.strip().startswith(("#", "}", ")", ".", "|", "&")) and "=>" not in code and " = " not in code:
            depth = 0
            j = i
            ok = False
            while j <= min(hi, i + 14):
                c, _ = code_part(lines[j - 1])
                c2 = re.sub(r'"(\\.|[^"\\])*"', '""', c)
                c2 = re.sub(r"'(\\.|[^'\\])'", "''", c2)
                depth += sum(c2.count(x) for x in "([{") - sum(c2.count(x) for x in ")]}")
                if depth < 0:
                    break
                if depth == 0 and c.rstrip().endswith(";"):
                    ok = True
                    break
                if depth == 0 and not c.rstrip().endswith((".", "(", ",")) and j > i and not lines[j].strip().startswith((".", "?")):
                    break
                j += 1
            if ok:
                # previous line must end a statement / open a block (we are at statement position)
                k = i - 2
                while k >= 0 and (not lines[k].strip() or lines[k].strip().startswith("//")):
                    k -= 1
                prev = code_part(lines[k])[0].rstrip() if k >= 0 else "{"
                if prev.endswith((";", "{", "}")):
                    out.append((i, j))
                i = j + 1
                continue
        i += 1
    return out


def multiline_if_negations(lines, lo, hi):
    """`if a\n && b\n {` -> `if !(a && b) {` (condition spanning lines)"""
    out = []
    for i in range(lo, hi + 1):
        code, _ = code_part(lines[i - 1])
        m = re.match(r"^(\s*(?:\} else )?if )(?!let\b)(.*)$", code)
        if not m or code.rstrip().endswith("{"):
            continue
        depth = 0
        j = i
        parts = []
        ok = False
        while j <= min(hi, i + 8):
            c, _ = code_part(lines[j - 1])
            body = m.group(2) if j == i else c.strip()
            c2 = re.sub(r'"(\\.|[^"\\])*"', '""', body)
            if j > i and c.strip() == "{" and depth == 0:
                ok = True
                break
            if c2.rstrip().endswith(" {") and depth + c2.count("(") - c2.count(")") == 0:
                parts.append(body.rstrip()[:-2])
                ok = True
                break
            depth += c2.count("(") - c2.count(")")
            parts.append(body)
            j += 1
        cond = " ".join(x.strip() for x in parts)
        if ok and "let " not in cond and "{" not in cond and cond:
            new = m.group(1) + "!(" + cond + ") {"
            out.append((i, j, new))
    return out


def assignments(lines, lo, hi):
    """single-line `x.y = expr;` / `x = expr;` statements"""
    out = []
    for i in range(lo, hi + 1):
        code, _ = code_part(lines[i - 1])
        if re.match(r"^\s+[\w\.\*]+ = [^=].*;\s*$", code) and not code.strip().startswith("let "):
            out.append((i, i))
    return out


def in_test_mod(lines, i):
    return False


def gen(pids, per, seed):
    props = {}
    for l in open(os.path.join(VERIF, "properties.jsonl")):
        p = json.loads(l)
        props[p["id"]] = p
    plan = []
    seen = set()
    rnd = random.Random(seed)
    for pid in pids or sorted(props):
        cands = []
        for f, lo, hi, mech in anchor_ranges(props[pid]):
            lines = open(os.path.join(REPO, f)).read().split("\n")
            hi = min(hi, len(lines))
            for i in range(lo, hi + 1):
                l = lines[i - 1]
                if l.strip().startswith(("//", "#[", "///")) or not l.strip():
                    continue
                for name, fn in OPS:
                    for new in fn(l):
                        if new != l:
                            cands.append({"prop": pid, "file": f, "line": i, "end": i, "op": name, "old": l, "new": new, "mech": mech})
            for (a, b) in stmt_deletions(lines, lo, hi) + assignments(lines, lo, hi):
                cands.append({"prop": pid, "file": f, "line": a, "end": b, "op": "del-stmt", "old": "\n".join(lines[a - 1:b]), "new": "", "mech": mech})
            for (a, b, new) in multiline_if_negations(lines, lo, hi):
                cands.append({"prop": pid, "file": f, "line": a, "end": b, "op": "if-negate", "old": "\n".join(lines[a - 1:b]), "new": new, "mech": mech})
        # stratify by operator so that rare operators are represented
        by = {}
        for c in cands:
            by.setdefault(c["op"], []).append(c)
        for v in by.values():
            rnd.shuffle(v)
        chosen = []
        while len(chosen) < per and any(by.values()):
            for k in sorted(by):
                if by[k] and len(chosen) < per:
                    c = by[k].pop()
                    key = (c["file"], c["line"], c["end"], c["new"])
                    if key in seen:
                        continue
                    seen.add(key)
                    chosen.append(c)
        print("%s: %d candidates, %d chosen" % (pid, len(cands), len(chosen)))
        plan += chosen
    for c in plan:
        c["id"] = hashlib.sha1(("%s|%s|%s|%s" % (c["file"], c["line"], c["end"], c["new"])).encode()).hexdigest()[:10]
    os.makedirs(SW, exist_ok=True)
    # append to an existing plan, keeping ids unique
    path = os.path.join(SW, "plan.jsonl")
    have = set()
    if os.path.exists(path):
        have = {json.loads(l)["id"] for l in open(path)}
    with open(path, "a") as fh:
        for c in plan:
            if c["id"] not in have:
                fh.write(json.dumps(c) + "\n")
    print("plan: +%d" % len([c for c in plan if c["id"] not in have]))


def apply_edit(w, c):
    p = os.path.join(w, c["file"])
    lines = open(p).read().split("\n")
    cur = "\n".join(lines[c["line"] - 1:c["end"]])
    if cur != c["old"]:
        return False
    lines[c["line"] - 1:c["end"]] = [c["new"]] + [""] * (c["end"] - c["line"])
    open(p, "w").write("\n".join(lines))
    return True


def test_verdict(w, res):
    try:
        t = subprocess.run("cargo test --workspace --no-fail-fast --offline 2>&1", shell=True, cwd=w, capture_output=True, text=True, timeout=2400,
                           env=dict(os.environ, CARGO_NET_OFFLINE="true", CARGO_TARGET_DIR=os.path.join(w, "target")))
        out = t.stdout
        failed = t.returncode != 0 or re.search(r"test result: FAILED|targets? failed|could not compile", out)
        passed = re.search(r"test result: ok", out)
        if failed or not passed:
            res["detail"] = "\n".join(x for x in out.splitlines() if "FAILED" in x or "failed" in x)[:300]
            return "killed-by-tests"
        return "SURVIVOR"
    except subprocess.TimeoutExpired:
        res["detail"] = "timeout"
        return "killed-by-tests"


def run_worker(w, idx, queue, lock, props_mode, results_path, phase="both"):
    cache = os.path.join(VERIF, ".cache", "sweep-" + os.path.basename(w))
    ev = os.path.join(cache, "ev")
    os.makedirs(ev, exist_ok=True)
    while True:
        with lock:
            if not queue:
                return
            c = queue.pop(0)
        sh("git -C %s checkout -- ." % w)
        t0 = time.time()
        res = {"id": c["id"]}
        if not apply_edit(w, c):
            res["status"] = "stale"
        elif phase == "test":
            res["status"] = test_verdict(w, res)
        else:
            env = dict(os.environ, VERIF_REPO=w, VERIF_EVIDENCE_DIR=ev, VERIF_REPORT_DIR=ev, VERIF_FACTS_TAG="sw-%s-" % os.path.basename(w), VERIF_CACHE_DIR=cache,
                       VERIF_SKIP_ENGINE_SELFTEST="1", VERIF_NO_SELFTEST="1")
            target = "all" if props_mode == "all" else c["prop"]
            r = subprocess.run([os.path.join(VERIF, "check"), target], env=env, capture_output=True, text=True)
            if r.returncode == 2:
                res["status"] = "does-not-compile"
            elif r.returncode == 1:
                res["status"] = "caught"
                res["by"] = sorted({l.strip().split("|")[0] for l in r.stdout.splitlines() if re.match(r"^  C\d\d\|", l)})
                res["keys"] = [l.strip()[:160] for l in r.stdout.splitlines() if re.match(r"^  C\d\d\|", l)][:6]
            elif phase == "check":
                res["status"] = "silent"
            else:
                # silent: does the pinned suite reject it anyway?
                res["status"] = test_verdict(w, res)
        res["secs"] = round(time.time() - t0)
        with lock:
            with open(results_path, "a") as fh:
                fh.write(json.dumps(res) + "\n")
            print("%s %-16s %s:%d %-12s %s %ss" % (c["prop"], res["status"], c["file"], c["line"], c["op"], ",".join(res.get("by", [])), res["secs"]), flush=True)
        sh("git -C %s checkout -- ." % w)


def run(workers, limit, props_mode, only_props, shard=None, phase="both"):
    plan = [json.loads(l) for l in open(os.path.join(SW, "plan.jsonl"))]
    if shard:
        i, n = [int(x) for x in shard.split("/")]
        plan = [c for k, c in enumerate(plan) if k % n == i]
    rp = os.path.join(SW, "results.jsonl")
    done = set()
    silent = set()
    if os.path.exists(rp):
        for l in open(rp):
            r = json.loads(l)
            if r["status"] == "silent":
                silent.add(r["id"])
            else:
                done.add(r["id"])
                silent.discard(r["id"])
    if phase == "test":
        queue = [c for c in plan if c["id"] in silent and c["id"] not in done]
    else:
        queue = [c for c in plan if c["id"] not in done and c["id"] not in silent and (not only_props or c["prop"] in only_props)]
    if limit:
        queue = queue[:limit]
    print("to run: %d (done %d)" % (len(queue), len(done)))
    lock = threading.Lock()
    ts = []
    for i, w in enumerate(workers):
        t = threading.Thread(target=run_worker, args=(w, i, queue, lock, props_mode, rp, phase))
        t.start()
        ts.append(t)
    for t in ts:
        t.join()


def report():
    plan = {json.loads(l)["id"]: json.loads(l) for l in open(os.path.join(SW, "plan.jsonl"))}
    res = {}
    for l in open(os.path.join(SW, "results.jsonl")):
        r = json.loads(l)
        res[r["id"]] = r
    tri = {}
    tp = os.path.join(SW, "triage.json")
    if os.path.exists(tp):
        tri = json.load(open(tp))
    by = {}
    for i, r in res.items():
        c = plan.get(i)
        if not c:
            continue
        st = r["status"]
        if st == "SURVIVOR" and i in tri:
            st = "survivor:" + tri[i]["verdict"]
        by.setdefault(c["prop"], {}).setdefault(st, []).append((c, r))
    tot = {}
    for pid in sorted(by):
        row = {k: len(v) for k, v in by[pid].items()}
        for k, v in row.items():
            tot[k] = tot.get(k, 0) + v
        print(pid, json.dumps(row, sort_keys=True))
    print("total", json.dumps(tot, sort_keys=True))
    if "--md" in sys.argv:
        cols = ["caught", "killed-by-tests", "survivor:hole-fixed", "survivor:equivalent", "survivor:irrelevant", "SURVIVOR", "silent", "does-not-compile"]
        with open(os.path.join(SW, "SUMMARY.md"), "w") as fh:
            fh.write("# Sweep summary (generated by `tools/sweep.py report --md`)\n\n")
            fh.write("Status of every machine-generated edit (see tools/sweep.py for the operators). `caught` = a check reported it when it was first run; "
                     "`killed-by-tests` = silent but rejected by the pinned suite; `survivor:*` = silent and accepted by the suite, triaged in triage.json "
                     "(`hole-fixed` = a rule was added and a mutant `sweep-*` re-creates it); `SURVIVOR` = not yet triaged; `silent` = suite verdict not yet computed.\n\n")
            fh.write("| property | " + " | ".join(cols) + " |\n|---|" + "---|" * len(cols) + "\n")
            for pid in sorted(by):
                row = {k: len(v) for k, v in by[pid].items()}
                fh.write("| %s | " % pid + " | ".join(str(row.get(c, 0)) for c in cols) + " |\n")
            fh.write("| total | " + " | ".join(str(tot.get(c, 0)) for c in cols) + " |\n")
    print()
    for pid in sorted(by):
        for c, r in by[pid].get("SURVIVOR", []):
            print("UNTRIAGED %s %s %s:%d %s\n    - %s\n    + %s" % (c["id"], pid, c["file"], c["line"], c["op"], c["old"].strip()[:150].replace("\n", " "), c["new"].strip()[:150]))


def main():
    a = sys.argv[1:]
    if not a:
        print(__doc__)
        return 2
    def opt(name, default=None):
        if name in a:
            return a[a.index(name) + 1]
        return default
    if a[0] == "gen":
        pids = [x for x in a[1:] if re.match(r"^C\d\d$", x)]
        gen(pids, int(opt("--per", "40")), int(opt("--seed", "1")))
    elif a[0] == "run":
        workers = opt("--workers").split(",")
        lim = int(opt("--limit", "0"))
        only = [x for x in a[1:] if re.match(r"^C\d\d$", x)]
        run(workers, lim, opt("--props", "all"), only, opt("--shard"), opt("--phase", "both"))
    elif a[0] == "report":
        report()
    return 0


if __name__ == "__main__":
    sys.exit(main())
