#!/usr/bin/env python3
"""Regenerates MANIFEST.json from rules/*.py (claimed) and tools/manifest_meta.json."""
import json, os, importlib, sys
VERIF = os.path.dirname(os.path.dirname(os.path.abspath(__file__)))
sys.path.insert(0, VERIF)
meta = json.load(open(os.path.join(VERIF, "tools", "manifest_meta.json")))
checks = []
na = []
for i in range(1, 21):
    pid = "C%02d" % i
    m = meta["properties"].get(pid, {})
    if os.path.exists(os.path.join(VERIF, "rules", pid.lower() + ".py")) and not m.get("not_applicable"):
        mod = importlib.import_module("rules." + pid.lower())
        checks.append({
            "property_id": pid,
            "quick_cmd": "./check %s --tier quick" % pid,
            "thorough_cmd": "./check %s --tier thorough" % pid,
            "evidence_file": "/verif/evidence/%s.json" % pid,
            "replay_cmd_template": "./check %s --replay {path}" % pid,
            "engine": "dgfacts+rules",
            "level_claimed": {
                "category": "other",
                "text": m.get("level_text") or ("Static analysis: structural necessary conditions of the property decided exactly over the type-resolved HIR of the current source (all call sites / arms / fields the rule quantifies over). " + mod.EXPLANATION),
                "design_ref": "DESIGN.md §3 " + pid,
            },
            "level_note": m.get("level_note") or ("Trusted base: rustc nightly front end (name resolution, typeck, HIR), the dgfacts extractor, and the reviewed role tables in rules/%s.py. Not decided: %s" % (pid.lower(), getattr(mod, "NOT_DECIDED", ""))),
            "technique": m.get("technique") or getattr(mod, "TECHNIQUE", "static analysis: custom rules over type-resolved HIR (rustc_private driver)"),
        })
    else:
        na.append({"property_id": pid, "reason": m.get("not_applicable") or "rule set for this property is not built yet in this round (static rules planned in DESIGN.md §3); no verdict is claimed"})
man = {
    "version": 1,
    "setup_cmd": "tools/setup.sh",
    "hooks": {
        "guard": "denoland_deno_graph_verif",
        "enable": "none needed: the checks analyse /repo's source through a rustc_private driver (RUSTC_WORKSPACE_WRAPPER) and never build instrumented code",
        "baseline_off_cmd": "cd /repo && cargo test --workspace --no-fail-fast --offline",
        "source_commits": [],
        "add_only": True,
    },
    "engines": [
        {"name": "dgfacts", "path": "driver/", "serves_properties": [c["property_id"] for c in checks], "kind_free_text": "rustc_private fact extractor (expanded-AST attributes, ADTs, typed HIR trees, resolved callees) run as RUSTC_WORKSPACE_WRAPPER on /repo's working tree"},
        {"name": "rules", "path": "rules/", "serves_properties": [c["property_id"] for c in checks], "kind_free_text": "Python rule engine: provenance slicing, structured must-pass-through, guard dominance, who-may, arm tables, serde schema agreement"},
        {"name": "mutants", "path": "tools/mutants.py", "serves_properties": [c["property_id"] for c in checks], "kind_free_text": "checker self-test on scratch copies (thorough tier); never counts as property coverage"},
    ],
    "checks": checks,
    "notes": meta.get("notes", ""),
    "not_applicable": na,
}
json.dump(man, open(os.path.join(VERIF, "MANIFEST.json"), "w"), indent=1)
print("claimed:", [c["property_id"] for c in checks], "n/a:", [n["property_id"] for n in na])
