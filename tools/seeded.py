#!/usr/bin/env python3
"""Run the registered checks against the seeded breaking changes kept under
seeded/<name>/ (patch.diff + meta.json).  Each patch is applied to a scratch
copy of /repo (never to /repo itself) and the quick check of the property it
breaks is run against the copy.

  tools/seeded.py [name ...] [--all-props]
"""
import json, os, shutil, subprocess, sys, tempfile
VERIF = os.path.dirname(os.path.dirname(os.path.abspath(__file__)))
sys.path.insert(0, os.path.join(VERIF, "tools"))
from mutants import scratch_copy


def run(name, all_props=False):
    d = os.path.join(VERIF, "seeded", name)
    meta = json.load(open(os.path.join(d, "meta.json")))
    sc = scratch_copy()
    try:
        r = subprocess.run(["patch", "-p1", "-s", "-i", os.path.join(d, "patch.diff")], cwd=sc, capture_output=True, text=True)
        if r.returncode != 0:
            return name, meta["property"], "patch-does-not-apply", r.stdout[-300:]
        ev = tempfile.mkdtemp(prefix="dgseed-ev-")
        env = dict(os.environ, VERIF_REPO=sc, VERIF_EVIDENCE_DIR=ev, VERIF_REPORT_DIR=ev, VERIF_FACTS_TAG="seed-")
        env.setdefault("VERIF_CACHE_DIR", os.path.join(VERIF, ".cache", "selftest"))
        env.setdefault("VERIF_SKIP_ENGINE_SELFTEST", "1")
        pids = [meta["property"]] + list(meta.get("also", []))
        if all_props:
            pids = ["all"]
        outs = []
        status = "MISSED"
        for pid in pids:
            rr = subprocess.run([os.path.join(VERIF, "check"), pid], env=env, capture_output=True, text=True)
            keys = [l.strip() for l in rr.stdout.splitlines() if l.startswith("  C") and "|" in l]
            if rr.returncode == 1:
                status = "caught"
                outs += keys
            elif rr.returncode == 2:
                status = "error"
                outs.append(rr.stderr[-400:])
        shutil.rmtree(ev, ignore_errors=True)
        return name, meta["property"], status, "; ".join(outs[:4])
    finally:
        shutil.rmtree(sc, ignore_errors=True)


def main():
    names = [a for a in sys.argv[1:] if not a.startswith("--")]
    if not names:
        names = sorted(os.listdir(os.path.join(VERIF, "seeded")))
    missed = 0
    for n in names:
        if not os.path.exists(os.path.join(VERIF, "seeded", n, "meta.json")):
            continue
        name, pid, status, detail = run(n, "--all-props" in sys.argv)
        print("%-28s %s %-8s %s" % (name, pid, status, detail[:260]), flush=True)
        if status != "caught":
            missed += 1
    print("seeded changes not caught: %d" % missed)


if __name__ == "__main__":
    main()
