#!/bin/sh
# confirm every /tmp/seed-out/<P>/change<i> that has no confirm.txt yet (sequentially)
for ch in /tmp/seed-out/C*/change*; do
  [ -f "$ch/patch.diff" ] || continue
  [ -f "$ch/confirm.txt" ] && continue
  p=$(basename $(dirname "$ch"))
  demo=$(ls "$ch" | grep -E '^seed_.*\.rs$' | head -1 | sed 's/\.rs$//')
  [ -n "$demo" ] || { echo "no demo in $ch" > "$ch/confirm.txt"; continue; }
  /verif/tools/confirm_seed.sh /tmp/wt-$p "$ch" "$demo"
done
