#!/usr/bin/env python3
"""first_look.py C09 C11 ... — verdict of today's rules on not-yet-kept seeded changes in /tmp/seed-out/<P>/change<i>/ (runs ./check all on a scratch copy)."""
import os, shutil, subprocess, sys, tempfile
VERIF = os.path.dirname(os.path.dirname(os.path.abspath(__file__)))
sys.path.insert(0, os.path.join(VERIF, "tools"))
from mutants import scratch_copy
for p in sys.argv[1:]:
    base = "/tmp/seed-out/%s" % p
    for ch in sorted(os.listdir(base)):
        d = os.path.join(base, ch)
        if not os.path.exists(os.path.join(d, "patch.diff")):
            continue
        sc = scratch_copy()
        try:
            r = subprocess.run(["patch", "-p1", "-s", "-i", os.path.join(d, "patch.diff")], cwd=sc, capture_output=True, text=True)
            if r.returncode != 0:
                print(p, ch, "patch-does-not-apply", r.stdout[-200:]); continue
            ev = tempfile.mkdtemp(prefix="dgfl-ev-")
            env = dict(os.environ, VERIF_REPO=sc, VERIF_EVIDENCE_DIR=ev, VERIF_REPORT_DIR=ev, VERIF_FACTS_TAG="fl-", VERIF_SKIP_ENGINE_SELFTEST="1")
            env.setdefault("VERIF_CACHE_DIR", os.path.join(VERIF, ".cache", "selftest"))
            rr = subprocess.run([os.path.join(VERIF, "check"), "all"], env=env, capture_output=True, text=True)
            shutil.rmtree(ev, ignore_errors=True)
            keys = [l.strip() for l in rr.stdout.splitlines() if l.startswith("  C") and "|" in l]
            own = [k for k in keys if k.startswith(p[:3] + "|")]
            st = "error" if rr.returncode == 2 else ("caught" if own else ("caught-by-other" if keys else "MISSED"))
            print(p, ch, st, "; ".join(k[:110] for k in (own or keys)[:3]), flush=True)
            if rr.returncode == 2:
                print(rr.stderr[-600:])
        finally:
            shutil.rmtree(sc, ignore_errors=True)
