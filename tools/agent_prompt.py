#!/usr/bin/env python3
"""Prints the prompt given to a fresh sub-agent for property <id> (only the
property text + its scratch worktree; nothing from /verif)."""
import json, sys
pid = sys.argv[1]
n = sys.argv[2] if len(sys.argv) > 2 else "a"
focus = sys.argv[3] if len(sys.argv) > 3 else ""
avoid = sys.argv[4] if len(sys.argv) > 4 else ""
for l in open('/verif/properties.jsonl'):
    p = json.loads(l)
    if p['id'] == pid:
        break
wt = "/tmp/wt-%s%s" % (pid, "" if n == "a" else n)
out = "/tmp/seed-out/%s%s" % (pid, "" if n == "a" else n)
print(f"""You are testing how well a semantic property of the Rust crate denoland/deno_graph is protected. You have your own scratch git worktree of the repository at {wt} (with a warm `target/` directory). Work ONLY inside {wt} and write your results to {out}/ (create it). Do not read or touch /verif or /repo. There is no network: always pass --offline to cargo (e.g. `cargo test --offline ...`), never try to fetch anything.

The property (id {pid}): "{p['title']}"

Statement: {p['statement']}

Quantified over: {p['quantifier']['text']}

Why the existing tests cannot settle it: {p['why_tests_cant']}

Code the property is anchored in: files {', '.join(p['anchors']['files'])}; mechanisms: {'; '.join(m.get('name','') + ' @ ' + m.get('where','') for m in p['anchors']['mechanism'])}

{("FOCUS for this assignment: put your changes in or around these parts of the anchored code (other people are covering the rest): " + focus + chr(10) + chr(10)) if focus else ""}{("ALREADY COVERED by other people (do NOT produce these or close variants of them; find different decisions / different sites to attack, including helper functions one or two calls below the anchored ones and the hand-off between two mechanisms): " + avoid + chr(10) + chr(10)) if avoid else ""}YOUR TASK: produce TWO different, realistic source changes to the crate (each independent of the other, each as small as a plausible refactoring slip, optimisation or "simplification" a developer could make), each of which BREAKS the property above while (1) the crate still compiles and (2) the ENTIRE existing test suite still passes (`cargo test --workspace --no-fail-fast --offline` from {wt}; all tests that pass on the unmodified tree must still pass). Prefer changes that need something specific to manifest — a particular interleaving or completion order, a fault at a particular point, a multi-step sequence of operations, an unusual input, or two cooperating sites that each look fine alone — NOT changes that ordinary use or an obvious test would expose at once. The two changes should break the property through different mechanisms / different code sites.

For EACH change i in {{1,2}} deliver in {out}/change<i>/:
  * patch.diff — `git diff` of the change against the unmodified worktree (source change only, apply-able with `git apply` at the repo root; do NOT include the demonstration test in this diff);
  * a demonstration: a new test file (put it under tests/ as e.g. tests/seed_{pid.lower()}_<i>.rs, or a #[test] placed in a NEW file) that FAILS with the change applied and PASSES without it; copy it to {out}/change<i>/ as well, plus the exact command to run it in demo_cmd.txt. Look at tests/integration_test.rs and src/lib.rs tests for how to drive the crate (MemoryLoader, BuildOptions, etc.; tokio is a dev-dependency). If a new [[test]] target needs registering in Cargo.toml, say so in notes.md (ordinary files under tests/ are auto-discovered).
  * notes.md — which part of the property it breaks, what it needs in order to manifest, and the output of: (a) the full existing test suite with the change (summary line showing all pass), (b) the demonstration failing with the change, (c) the demonstration passing without the change.

Procedure: make change 1, verify (a)(b)(c), save files, then `git checkout -- .` (keep your test file aside), then do change 2 likewise. Leave the worktree clean of source changes at the end (untracked demo test files may stay). Be careful that the demonstration really depends on the change (run it both ways). Building takes a few minutes the first time. When finished, reply with a short summary of the two changes and where the files are.""")
