#!/usr/bin/env python3
"""Engine self-test on the fixture crate (fixtures/): every primitive of
rules/lib.py must give the recorded verdict on tiny known-good / known-bad
functions.  Run by `./check` before the property rules (fails closed, exit 2):
an expected-zero rule must not pass because its matcher went blind."""
import os, sys, re
VERIF = os.path.dirname(os.path.dirname(os.path.abspath(__file__)))
sys.path.insert(0, VERIF)


def run(check_mod):
    from rules.lib import (Facts, Flow, CountFlow, must_pass, guards_at, Slicer, Taint, panic_sinks, may_reach, sccs, callee_matches,
                           walk, peel, peel_value, expr_text, pat_text, call_edges, has_cycle)
    from rules import c04, c16
    fact, dt, line = check_mod.run_driver("default", repo=os.path.join(VERIF, "fixtures"), tag="fixture-", crate="dgfixture")
    F = Facts(fact)
    fails = []

    def expect(name, got, want):
        if got != want:
            fails.append("%s: got %r, expected %r" % (name, got, want))

    B = lambda n: F.body("dgfixture::" + n) if ("dgfixture::" + n) in F.by_path else F.body(n)
    is_t = lambda n: callee_matches(n, ["target"])
    # --- T6
    def t6(fn):
        b = B(fn)
        for n in b["_nodes"]:
            if n["k"] == "For" and c04.HASH_COLL.match(c04.tys(F, n["iter"])):
                from rules.lib import pat_bindings
                bad = c04.classify_body(F, n["body"], {x["lid"] for x in pat_bindings(n["pat"])})
                return "sensitive" if bad else "insensitive"
            if n["k"] == "MethodCall" and c04.HASH_COLL.match(F.tystr(n.get("recv_ty")) or "") and n["name"] in c04.ITER_METHODS:
                return c04.consumer(F, n)[0]
        return "no-site"
    expect("t6_sensitive", t6("t6_sensitive"), "sensitive")
    expect("t6_insensitive", t6("t6_insensitive"), "insensitive")
    expect("t6_collect_vec", t6("t6_collect_vec"), "sensitive")
    expect("t6_any", t6("t6_any"), "insensitive")
    # --- T2
    def mp(fn):
        bad, _ = must_pass(F, B(fn)["body"]["value"], is_t)
        return len(bad)
    expect("t2_all_paths", mp("t2_all_paths"), 0)
    expect("t2_one_path_misses", mp("t2_one_path_misses") > 0, True)
    expect("t2_question_mark (error exit is not a normal return)", mp("t2_question_mark"), 0)
    expect("t2_loop_may_skip", mp("t2_loop_may_skip") > 0, True)
    expect("t2_let_else", mp("t2_let_else") > 0, True)
    # --- T5
    b = B("t5_guards")
    calls = [n for n in b["_nodes"] if callee_matches(n, ["target", "other"])]
    def gtxt(n):
        return sorted(g.text() for g in guards_at(F, n))
    g0 = gtxt(calls[0])
    expect("t5 guard a", any(t == "(a)" for t in g0), True)
    expect("t5 guard let", any("matches std::option::Option::Some(v)" in t for t in g0), True)
    expect("t5 guard !contains", any(t.startswith("!(") and "contains" in t for t in g0), True)
    g1 = gtxt(calls[1])
    expect("t5 else branch has no positive let guard", any(" matches std::option::Option::Some(v)" in t and "!matches" not in t for t in g1), False)
    g3 = gtxt(calls[3])
    expect("t5 match arm negative of earlier arm", any("!matches" in t for t in g3), True)
    b = B("t5_matches")
    c = [n for n in b["_nodes"] if callee_matches(n, ["target"])][0]
    expect("t5 matches! pattern guard", any(g.kind == "pat" and g.pol and set(re.findall(r"'(\w+)'", pat_text(g.pat))) == {"a", "b"} for g in guards_at(F, c)), True)
    # --- T4
    S = Slicer(F, sources=["dgfixture::lookup", "lookup"])
    def origins(fn):
        out = set()
        for n in F.all_nodes():
            if callee_matches(n, ["Loader::load"]):
                for leaf in S.origins(n["args"][1]):
                    if leaf.kind == "ctor" and leaf.what.endswith("Options") and leaf.node["_top"]["path"].endswith(fn):
                        f = [x["e"] for x in leaf.node["fields"] if x["name"] == "checksum"][0]
                        for l2 in S.origins(f):
                            out.add(l2.kind + (":None" if (l2.what or "").endswith("::None") else ""))
        return out
    expect("t4_from_source", origins("t4_from_source"), {"src", "ctor:None"})
    expect("t4_dropped", origins("t4_dropped"), {"ctor:None"})
    expect("t4_interproc (filter may drop)", origins("helper"), {"src", "ctor:None"})
    # --- PU
    T = Taint(F, source_calls=["untrusted"])
    def pu(fn):
        return sorted(k for k, node, op in panic_sinks(B(fn)) if T.why(op))
    expect("pu_tainted", pu("pu_tainted"), ["index", "unwrap", "unwrap"])
    expect("pu_clean", pu("pu_clean"), [])
    # --- ordering / counting
    b = B("ord")
    cs = [n for n in b["_nodes"] if callee_matches(n, ["target", "other"])]
    expect("may_reach forward", may_reach(F, cs[0], cs[3]), True)
    expect("may_reach backward", may_reach(F, cs[3], cs[0]), False)
    expect("may_reach sibling branches", may_reach(F, cs[1], cs[2]), False)
    cf = CountFlow(F, is_t)
    cf.run(B("count_once_or_twice")["body"]["value"], frozenset([0]))
    counts = set()
    for k, n, st in cf.exits:
        counts |= set(st)
    expect("CountFlow", counts, {1, 2})
    # --- T7
    g = F.callgraph()
    comps = [c_ for c_ in sccs(g, list(g)) if len(c_) > 1 or c_[0] in g.get(c_[0], ())]
    names = sorted(c_[0].split("::")[-1] for c_ in comps)
    expect("recursive SCCs", names, ["rec_fresh", "rec_guarded", "rec_unguarded"])
    expect("guard fn detection", [bool(c16.is_guard_fn(F, B(n))) for n in ("rec_guarded", "rec_fresh", "rec_unguarded")], [True, True, False])
    b = B("rec_fresh")
    call = [n for n in b["_nodes"] if callee_matches(n, ["rec_fresh"])][0]
    a = peel_value(call["args"][1])
    expect("fresh visited set detected", a.get("res") == "local", False)
    # --- unsafe
    expect("unsafe block seen", any(n.get("k") == "Block" and n.get("unsafe") for n in B("has_unsafe")["_nodes"]), True)
    return fails, len(F.bodies)


if __name__ == "__main__":
    import importlib.machinery, importlib.util
    loader = importlib.machinery.SourceFileLoader("check", os.path.join(VERIF, "check"))
    spec = importlib.util.spec_from_loader("check", loader)
    m = importlib.util.module_from_spec(spec)
    loader.exec_module(m)
    fails, n = run(m)
    for f in fails:
        print("ENGINE-SELFTEST FAIL:", f)
    print("engine selftest: %d bodies, %d failure(s)" % (n, len(fails)))
    sys.exit(1 if fails else 0)
