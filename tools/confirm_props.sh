#!/bin/sh
# confirm_props.sh C09 C11 ...  — confirm the changes of the named (finished) seed agents only
for p in "$@"; do
  for ch in /tmp/seed-out/$p/change*; do
    [ -f "$ch/patch.diff" ] || continue
    [ -f "$ch/confirm.txt" ] && continue
    demo=$(ls "$ch" | grep -E '^seed_.*\.rs$' | head -1 | sed 's/\.rs$//')
    [ -n "$demo" ] || { echo "no demo in $ch" > "$ch/confirm.txt"; continue; }
    /verif/tools/confirm_seed.sh /tmp/wt-$p "$ch" "$demo"
    echo "confirmed $ch"
  done
done
