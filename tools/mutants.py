#!/usr/bin/env python3
"""Checker self-test: apply each mutant (a single textual edit that keeps the
crate compiling) to a scratch copy of /repo, run the property's check against
the copy, and require the report to name the mutated instance.

  tools/mutants.py [C05 ...] [--only name] [--keep]

Mutants live in mutants/<pid>.json:  [{"name", "file", "find", "replace",
"expect": substring of a violation key, "why"}].  Nothing here executes
deno_graph code; scratch copies live under $TMPDIR and are removed.
Results are for `checker_selftest` in evidence — never property coverage.
"""
import json
import os
import shutil
import subprocess
import sys
import tempfile

VERIF = os.path.dirname(os.path.dirname(os.path.abspath(__file__)))
REPO = os.environ.get("VERIF_REPO", "/repo")


def scratch_copy():
    d = tempfile.mkdtemp(prefix="dgmut-")
    for item in ("Cargo.toml", "Cargo.lock", "rust-toolchain.toml", "src", "lib"):
        s = os.path.join(REPO, item)
        if os.path.isdir(s):
            shutil.copytree(s, os.path.join(d, item), ignore=shutil.ignore_patterns("target", "node_modules"))
        elif os.path.exists(s):
            shutil.copy2(s, os.path.join(d, item))
    return d


def apply(d, m):
    edits = m.get("edits") or [m]
    for e in edits:
        p = os.path.join(d, e["file"])
        s = open(p).read()
        if "regex" in e:
            import re as _re
            s2, k = _re.subn(e["regex"], e["replace"], s)
            if k == 0:
                return "regex matched nothing in %s" % e["file"]
            open(p, "w").write(s2)
            continue
        n = s.count(e["find"])
        nth = e.get("nth")
        if n == 0:
            return "find-string not present in %s" % e["file"]
        if n > 1 and nth is None:
            return "find-string matches %d times in %s (give nth)" % (n, e["file"])
        if nth is None:
            s = s.replace(e["find"], e["replace"], 1)
        else:
            parts = s.split(e["find"])
            if nth >= len(parts) - 1:
                return "nth out of range"
            s = e["find"].join(parts[: nth + 1]) + e["replace"] + e["find"].join(parts[nth + 1:])
        open(p, "w").write(s)
    return None


def run_one(pid, m, keep=False):
    d = scratch_copy()
    try:
        err = apply(d, m)
        if err:
            return {"name": m["name"], "status": "not-applicable", "detail": err}
        ev = tempfile.mkdtemp(prefix="dgmut-ev-")
        env = dict(os.environ, VERIF_REPO=d, VERIF_EVIDENCE_DIR=ev, VERIF_REPORT_DIR=ev, VERIF_FACTS_TAG="mut-")
        env.setdefault("VERIF_CACHE_DIR", os.path.join(VERIF, ".cache", "selftest"))
        env.setdefault("VERIF_SKIP_ENGINE_SELFTEST", "1")
        r = subprocess.run([os.path.join(VERIF, "check"), pid, "--tier", "quick"], env=env, capture_output=True, text=True)
        out = r.stdout
        shutil.rmtree(ev, ignore_errors=True)
        if r.returncode == 2:
            return {"name": m["name"], "status": "does-not-compile", "detail": (r.stderr or "")[-1500:]}
        keys = [l.strip() for l in out.splitlines() if l.startswith("  " + pid + "|")]
        hit = [k for k in keys if m["expect"] in k]
        if r.returncode == 1 and hit:
            return {"name": m["name"], "status": "caught", "keys": keys[:6]}
        if r.returncode == 1:
            return {"name": m["name"], "status": "caught-other", "keys": keys[:6], "detail": "expected key containing %r" % m["expect"]}
        return {"name": m["name"], "status": "MISSED", "detail": out[-600:]}
    finally:
        if not keep:
            shutil.rmtree(d, ignore_errors=True)


def run_property(pid, only=None, keep=False):
    p = os.path.join(VERIF, "mutants", pid + ".json")
    if not os.path.exists(p):
        return []
    ms = json.load(open(p))
    res = []
    for m in ms:
        if only and m["name"] != only:
            continue
        r = run_one(pid, m, keep)
        r["why"] = m.get("why", "")
        res.append(r)
        print("%s %-44s %s %s" % (pid, m["name"], r["status"], r.get("detail", "")[:300] if r["status"] not in ("caught",) else ""), flush=True)
    return res


def run_benign(only=None):
    """behaviour-preserving edits: every check must stay silent"""
    ms = json.load(open(os.path.join(VERIF, "mutants", "benign.json")))
    bad = 0
    for m in ms:
        if only and m["name"] != only:
            continue
        d = scratch_copy()
        try:
            err = apply(d, m)
            if err:
                print("benign %-40s not-applicable %s" % (m["name"], err), flush=True)
                bad += 1
                continue
            ev = tempfile.mkdtemp(prefix="dgmut-ev-")
            env = dict(os.environ, VERIF_REPO=d, VERIF_EVIDENCE_DIR=ev, VERIF_REPORT_DIR=ev, VERIF_FACTS_TAG="ben-")
            env.setdefault("VERIF_CACHE_DIR", os.path.join(VERIF, ".cache", "selftest"))
            env.setdefault("VERIF_SKIP_ENGINE_SELFTEST", "1")
            r = subprocess.run([os.path.join(VERIF, "check"), m.get("props", "all")], env=env, capture_output=True, text=True)
            shutil.rmtree(ev, ignore_errors=True)
            alarms = [l.strip() for l in r.stdout.splitlines() if l.startswith("  C") and "|" in l]
            if r.returncode == 2:
                print("benign %-40s does-not-compile\n%s" % (m["name"], r.stderr[-800:]), flush=True)
                bad += 1
            elif r.returncode == 0:
                print("benign %-40s silent" % m["name"], flush=True)
            else:
                bad += 1
                print("benign %-40s FALSE-ALARM (%d)" % (m["name"], len(alarms)), flush=True)
                for a in alarms[:25]:
                    print("      " + a[:160], flush=True)
        finally:
            shutil.rmtree(d, ignore_errors=True)
    print("benign edits that raised an alarm / failed: %d" % bad)
    return 1 if bad else 0


def main():
    if "--benign" in sys.argv:
        only = sys.argv[sys.argv.index("--only") + 1] if "--only" in sys.argv else None
        return run_benign(only)
    args = [a for a in sys.argv[1:] if not a.startswith("--")]
    only = None
    if "--only" in sys.argv:
        only = sys.argv[sys.argv.index("--only") + 1]
        args = [a for a in args if a != only]
    keep = "--keep" in sys.argv
    pids = args or sorted(f[:-5] for f in os.listdir(os.path.join(VERIF, "mutants")) if f.endswith(".json") and f != "benign.json")
    bad = 0
    for pid in pids:
        for r in run_property(pid, only, keep):
            if r["status"] not in ("caught",):
                bad += 1
    print("mutants not caught exactly: %d" % bad)
    return 1 if bad else 0


if __name__ == "__main__":
    sys.exit(main())
