#!/bin/sh
# usage: confirm_seed.sh <worktree> <seed-out-dir/changeN> <demo test name (tests/<name>.rs)>
# Confirms in the scratch worktree: with the patch the full suite passes and the
# demo fails; without it the demo passes.  Writes <changeN>/confirm.txt.
wt=$1; ch=$2; demo=$3
out=$ch/confirm.txt
cd "$wt" || exit 2
git checkout -q -- . 
cp "$ch/$demo.rs" tests/$demo.rs 2>/dev/null
{
echo "== confirm $(date -u +%FT%TZ) wt=$wt demo=$demo"
if ! git apply --check "$ch/patch.diff"; then echo "RESULT: patch does not apply"; exit 1; fi
git apply "$ch/patch.diff"
echo "-- suite with change"
cargo test --workspace --no-fail-fast --offline 2>&1 | grep -E "^test result|FAILED|error(\[|:)" | grep -v "seed_" 
echo "-- demo with change (expected to FAIL)"
cargo test --offline --test $demo 2>&1 | grep -E "^test result|^test .* (ok|FAILED)"
git checkout -q -- .
echo "-- demo without change (expected to pass)"
cargo test --offline --test $demo 2>&1 | grep -E "^test result|^test .* (ok|FAILED)"
echo "== end"
} > "$out" 2>&1
