#!/usr/bin/env python3
"""Fills the @@..@@ placeholders of DESIGN.md section 7.2 from sweep/results.jsonl + triage.json."""
import json, os, re
V = os.path.dirname(os.path.dirname(os.path.abspath(__file__)))
plan = {json.loads(l)["id"] for l in open(os.path.join(V, "sweep", "plan.jsonl"))}
res = {}
for l in open(os.path.join(V, "sweep", "results.jsonl")):
    r = json.loads(l)
    res[r["id"]] = r
tri = json.load(open(os.path.join(V, "sweep", "triage.json")))
c = {}
for i, r in res.items():
    if i not in plan:
        continue
    st = r["status"]
    if st == "SURVIVOR":
        st = "survivor:" + tri.get(i, {}).get("verdict", "untriaged")
    c[st] = c.get(st, 0) + 1
surv = sum(v for k, v in c.items() if k.startswith("survivor:"))
vals = {"N_TOTAL": len(plan), "N_DNC": c.get("does-not-compile", 0), "N_CAUGHT": c.get("caught", 0), "N_KILLED": c.get("killed-by-tests", 0), "N_SURV": surv,
        "N_EQ": c.get("survivor:equivalent", 0), "N_IRR": c.get("survivor:irrelevant", 0), "N_HOLE": c.get("survivor:hole-fixed", 0),
        "N_SILENT": c.get("silent", 0) + (len(plan) - len([i for i in res if i in plan]))}
p = os.path.join(V, "DESIGN.md")
s = open(p).read()
for k, v in vals.items():
    s = s.replace("@@%s@@" % k, str(v))
open(p, "w").write(s)
print(vals, {k: v for k, v in c.items() if k.startswith("survivor:untri")})
