#!/usr/bin/env python3
"""Regenerates the table of DESIGN.md section 7.2 (between the sweep-numbers markers) from sweep/results.jsonl + triage.json."""
import json, os, re
V = os.path.dirname(os.path.dirname(os.path.abspath(__file__)))
plan = {json.loads(l)["id"] for l in open(os.path.join(V, "sweep", "plan.jsonl"))}
res = {}
for l in open(os.path.join(V, "sweep", "results.jsonl")):
    r = json.loads(l)
    if r["status"] == "silent" and r["id"] in res and res[r["id"]]["status"] != "silent":
        continue
    res[r["id"]] = r
tri = json.load(open(os.path.join(V, "sweep", "triage.json")))
c = {}
for i, r in res.items():
    if i not in plan:
        continue
    st = r["status"]
    if st == "SURVIVOR":
        st = "survivor:" + tri.get(i, {}).get("verdict", "untriaged")
    c[st] = c.get(st, 0) + 1
surv = sum(v for k, v in c.items() if k.startswith("survivor:"))
rows = [("edits generated", len(plan)),
        ("does not compile", c.get("does-not-compile", 0)),
        ("reported by a check when first run", c.get("caught", 0)),
        ("silent, but the pinned suite rejects it", c.get("killed-by-tests", 0)),
        ("silent **and** accepted by the suite (survivor)", surv),
        ("… of which equivalent (`.iter().rev().any(..)`, dead code)", c.get("survivor:equivalent", 0)),
        ("… of which irrelevant to every property (listing order of an accessor, progress reporter, range of a diagnostic, loader hints, supersets of traced names)", c.get("survivor:irrelevant", 0)),
        ("… of which a hole: a property-relevant decision no rule looked at (rule added)", c.get("survivor:hole-fixed", 0)),
        ("… of which not triaged yet", c.get("survivor:untriaged", 0)),
        ("silent, suite verdict not computed / not run before the time ran out", c.get("silent", 0) + c.get("stale", 0) + (len(plan) - len([i for i in res if i in plan])))]
tab = "| verdict | count |\n|---|---|\n" + "".join("| %s | %d |\n" % r for r in rows)
p = os.path.join(V, "DESIGN.md")
s = open(p).read()
b, e = "<!-- sweep-numbers:begin -->\n", "<!-- sweep-numbers:end -->"
i, j = s.index(b) + len(b), s.index(e)
open(p, "w").write(s[:i] + tab + s[j:])
print(rows)
