#!/usr/bin/env python3
"""False-alarm test with *independently written* behaviour-preserving patches.

benign/<name>.diff are refactorings written by fresh sub-agents that saw only
an area of the crate and the instruction "strictly behaviour-preserving clean-up,
suite must pass" (never /verif).  Each is applied to a scratch copy of /repo and
`./check all` must stay silent.  An alarm here is a defect of the *checker*
(unless reading the patch shows that it does change behaviour; such patches are
moved to benign/rejected/ with the reason in benign/NOTES.md).

  tools/benign_patches.py [name ...] [--dir /tmp/benign-out/B1]
"""
import os, shutil, subprocess, sys, tempfile
VERIF = os.path.dirname(os.path.dirname(os.path.abspath(__file__)))
sys.path.insert(0, os.path.join(VERIF, "tools"))
from mutants import scratch_copy


def run(path):
    sc = scratch_copy()
    try:
        r = subprocess.run(["patch", "-p1", "-s", "-i", path], cwd=sc, capture_output=True, text=True)
        if r.returncode != 0:
            return "patch-does-not-apply", [r.stdout[-300:]]
        ev = tempfile.mkdtemp(prefix="dgben-ev-")
        env = dict(os.environ, VERIF_REPO=sc, VERIF_EVIDENCE_DIR=ev, VERIF_REPORT_DIR=ev, VERIF_FACTS_TAG="benp-")
        env.setdefault("VERIF_CACHE_DIR", os.path.join(VERIF, ".cache", "selftest"))
        env.setdefault("VERIF_SKIP_ENGINE_SELFTEST", "1")
        rr = subprocess.run([os.path.join(VERIF, "check"), "all"], env=env, capture_output=True, text=True)
        shutil.rmtree(ev, ignore_errors=True)
        if rr.returncode == 2:
            return "error", [(rr.stderr or "")[-1200:]]
        alarms = [l.strip() for l in rr.stdout.splitlines() if l.startswith("  C") and "|" in l]
        return ("silent" if rr.returncode == 0 else "FALSE-ALARM"), alarms
    finally:
        shutil.rmtree(sc, ignore_errors=True)


def main():
    a = sys.argv[1:]
    d = os.path.join(VERIF, "benign")
    if "--dir" in a:
        d = a[a.index("--dir") + 1]
        a = [x for x in a if x not in ("--dir", d)]
    names = a or sorted(f for f in os.listdir(d) if f.endswith(".diff"))
    bad = 0
    for n in names:
        st, alarms = run(os.path.join(d, n))
        print("%-28s %s" % (n, st), flush=True)
        if st != "silent":
            bad += 1
            for x in alarms[:30]:
                print("      " + x[:220], flush=True)
    print("patches that raised an alarm / failed: %d of %d" % (bad, len(names)))
    return 1 if bad else 0


if __name__ == "__main__":
    sys.exit(main())
