#!/bin/sh
# Run once after a fresh restore (offline): build the fact driver and warm the
# private cargo target dir with the dependency metadata of /repo, so that each
# check only has to re-analyse the deno_graph crate itself.
set -e
cd "$(dirname "$0")/.."
export CARGO_NET_OFFLINE=true
(cd driver && cargo build --release --offline)
python3 - <<'PY'
import importlib.machinery, importlib.util, sys
loader = importlib.machinery.SourceFileLoader("check", "./check")
spec = importlib.util.spec_from_loader("check", loader)
m = importlib.util.module_from_spec(spec); loader.exec_module(m)
fact, dt, line = m.run_driver("default")
print("setup: facts ok:", line, "(%.0fs)" % dt)
PY
