#!/usr/bin/env python3
"""keep_seed.py <Pid> <i> <name> <breaks> <needs>  — copy a confirmed seeded change into /verif/seeded/<name>/"""
import json, os, shutil, sys
pid, i, name, breaks, needs = sys.argv[1:6]
src = "/tmp/seed-out/%s/change%s" % (pid, i)
pid = pid[:3]
dst = "/verif/seeded/%s" % name
os.makedirs(dst, exist_ok=True)
shutil.copy(os.path.join(src, "patch.diff"), dst)
demo = [f for f in os.listdir(src) if f.startswith("seed_") and f.endswith(".rs")][0]
shutil.copy(os.path.join(src, demo), dst)
for f in ("confirm.txt", "notes.md", "demo_cmd.txt"):
    if os.path.exists(os.path.join(src, f)):
        shutil.copy(os.path.join(src, f), dst)
conf = open(os.path.join(src, "confirm.txt")).read() if os.path.exists(os.path.join(src, "confirm.txt")) else ""
meta = {
    "property": pid,
    "breaks": breaks,
    "needs_to_manifest": needs,
    "demonstration": demo,
    "origin": "fresh sub-agent given only the property text (rounds 2 and 3: plus a focus on some of the property's own anchors) and a scratch worktree of /repo",
    "confirmed_by_me": {
        "how": "tools/confirm_seed.sh in the scratch worktree: git apply patch.diff; cargo test --workspace --no-fail-fast --offline (148 lib + 16 integration + 1 wasm pass; only the seed demo tests fail); cargo test --offline --test %s fails with the patch and passes after git checkout" % demo[:-3],
        "log": "confirm.txt",
        "ok": ("expected to FAIL" in conf and "FAILED" in conf.split("-- demo with change")[1].split("-- demo without")[0] and "FAILED" not in conf.split("-- demo without change")[1]) if conf else False,
    },
}
json.dump(meta, open(os.path.join(dst, "meta.json"), "w"), indent=1)
print(name, meta["confirmed_by_me"]["ok"])
