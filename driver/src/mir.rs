// MIR facts (pre-coroutine-lowering `mir_built`), emitted only when
// DGFACTS_MIR is set. See rules/ for what consumes them.
use crate::json::V;
use crate::Em;
use rustc_middle::ty::TyCtxt;

pub fn collect<'tcx>(_tcx: TyCtxt<'tcx>, _em: &mut Em<'tcx>) -> V {
  V::Null
}
