// dgfacts — fact extractor for the static checks in /verif.
//
// Runs as RUSTC_WORKSPACE_WRAPPER under `cargo +nightly check`. For the crate
// named by $DGFACTS_CRATE (default: deno_graph) it writes one JSON fact file
// to $DGFACTS_OUT/<crate>.json with:
//   * ast_adts:  struct/enum attributes (serde, default, ...) from the
//                expanded AST (helper attributes do not survive into HIR),
//   * adts:      local ADTs with fields/variants/types/visibility, inherent
//                methods, trait impls (derived or hand written),
//   * traits:    local traits and their methods,
//   * bodies:    every non-closure body owner with a typed, simplified HIR
//                expression tree (closures / async blocks are nested inline),
//   * types:     interned type strings.
// The driver contains no property knowledge.

#![feature(rustc_private)]
#![allow(unused)]

extern crate rustc_ast;
extern crate rustc_ast_pretty;
extern crate rustc_driver;
extern crate rustc_hir;
extern crate rustc_interface;
extern crate rustc_middle;
extern crate rustc_span;

use rustc_hir as hir;
use rustc_hir::def::{CtorOf, DefKind, Res};
use rustc_hir::def_id::{DefId, LocalDefId, LOCAL_CRATE};
use rustc_middle::ty::{self, Ty, TyCtxt};
use rustc_span::{ExpnKind, Span, Symbol};
use std::collections::HashMap;

mod json;
use json::V;

mod extern_adts;
mod mir;

fn main() {
  let mut args: Vec<String> = std::env::args().collect();
  // As RUSTC_WORKSPACE_WRAPPER: argv[1] is the path of the real rustc.
  if args.len() > 1 && (args[1].ends_with("rustc") || args[1].contains("/rustc")) {
    args.remove(1);
  }
  let mut cb = Cb;
  rustc_driver::run_compiler(&args, &mut cb);
}

struct Cb;

impl rustc_driver::Callbacks for Cb {
  fn after_expansion<'tcx>(
    &mut self,
    _c: &rustc_interface::interface::Compiler,
    tcx: TyCtxt<'tcx>,
  ) -> rustc_driver::Compilation {
    let want = std::env::var("DGFACTS_CRATE").unwrap_or_else(|_| "deno_graph".to_string());
    let name = tcx.crate_name(LOCAL_CRATE).to_string();
    if name != want {
      return rustc_driver::Compilation::Continue;
    }
    let out_dir = match std::env::var("DGFACTS_OUT") {
      Ok(d) => d,
      Err(_) => return rustc_driver::Compilation::Continue,
    };
    let t0 = std::time::Instant::now();
    // 1. expanded AST first (lowering steals it)
    let ast_adts = ast_pass(tcx);
    // 2. HIR / typeck
    let mut em = Em::new(tcx);
    let adts = em.adts();
    let traits = em.traits();
    let bodies = em.bodies();
    let ext = extern_adts::collect(tcx, &mut em);
    let mirf = if std::env::var("DGFACTS_MIR").is_ok() { mir::collect(tcx, &mut em) } else { V::Null };
    let n_bodies = em.n_bodies;
    let n_nodes = em.next_id;
    let n_closures = em.n_closures;
    let n_coroutines = em.n_coroutines;
    let types = V::Arr(em.type_list.iter().map(|s| V::Str(s.clone())).collect());
    let root = V::Obj(vec![
      ("crate", V::Str(name.clone())),
      ("counts", V::Obj(vec![
        ("bodies", V::Int(n_bodies)),
        ("nodes", V::Int(n_nodes)),
        ("closures", V::Int(n_closures)),
        ("coroutines", V::Int(n_coroutines)),
      ])),
      ("ast_adts", ast_adts),
      ("adts", adts),
      ("traits", traits),
      ("bodies", bodies),
      ("extern_adts", ext),
      ("mir", mirf),
      ("types", types),
    ]);
    let mut s = String::with_capacity(64 << 20);
    root.write(&mut s);
    let path = format!("{}/{}.json", out_dir, name);
    let tmp = format!("{}.tmp{}", path, std::process::id());
    std::fs::write(&tmp, s.as_bytes()).expect("write facts");
    std::fs::rename(&tmp, &path).expect("rename facts");
    eprintln!(
      "dgfacts: crate={} bodies={} nodes={} closures={} coroutines={} bytes={} in {:?}",
      name, n_bodies, n_nodes, n_closures, n_coroutines, s.len(), t0.elapsed()
    );
    rustc_driver::Compilation::Continue
  }
}

// ---------------------------------------------------------------------------
// expanded-AST pass: attributes of structs / enums / variants / fields
// ---------------------------------------------------------------------------

fn attr_strings(attrs: &[rustc_ast::Attribute]) -> V {
  let mut v = vec![];
  for a in attrs {
    if a.is_doc_comment() {
      continue;
    }
    v.push(V::Str(rustc_ast_pretty::pprust::attribute_to_string(a)));
  }
  V::Arr(v)
}

struct AstV {
  stack: Vec<String>,
  out: Vec<V>,
}

impl AstV {
  fn fields(&self, vd: &rustc_ast::VariantData) -> V {
    let mut fs = vec![];
    for (i, f) in vd.fields().iter().enumerate() {
      let name = match f.ident {
        Some(id) => id.name.to_string(),
        None => i.to_string(),
      };
      fs.push(V::Obj(vec![
        ("name", V::Str(name)),
        ("ty", V::Str(rustc_ast_pretty::pprust::ty_to_string(&f.ty))),
        ("attrs", attr_strings(&f.attrs)),
      ]));
    }
    V::Arr(fs)
  }
  fn path(&self, name: &str) -> String {
    let mut p = self.stack.join("::");
    if !p.is_empty() {
      p.push_str("::");
    }
    p.push_str(name);
    p
  }
}

impl<'ast> rustc_ast::visit::Visitor<'ast> for AstV {
  fn visit_item(&mut self, i: &'ast rustc_ast::Item) {
    use rustc_ast::ItemKind;
    match &i.kind {
      ItemKind::Mod(_, ident, _) => {
        self.stack.push(ident.name.to_string());
        rustc_ast::visit::walk_item(self, i);
        self.stack.pop();
      }
      ItemKind::Struct(ident, _, vd) => {
        let o = V::Obj(vec![
          ("path", V::Str(self.path(ident.name.as_str()))),
          ("kind", V::Str("struct".into())),
          ("attrs", attr_strings(&i.attrs)),
          ("fields", self.fields(vd)),
        ]);
        self.out.push(o);
      }
      ItemKind::Enum(ident, _, ed) => {
        let mut vs = vec![];
        for v in ed.variants.iter() {
          vs.push(V::Obj(vec![
            ("name", V::Str(v.ident.name.to_string())),
            ("attrs", attr_strings(&v.attrs)),
            ("fields", self.fields(&v.data)),
            ("shape", V::Str(match &v.data {
              rustc_ast::VariantData::Struct { .. } => "struct",
              rustc_ast::VariantData::Tuple(..) => "tuple",
              rustc_ast::VariantData::Unit(..) => "unit",
            }.into())),
          ]));
        }
        let o = V::Obj(vec![
          ("path", V::Str(self.path(ident.name.as_str()))),
          ("kind", V::Str("enum".into())),
          ("attrs", attr_strings(&i.attrs)),
          ("variants", V::Arr(vs)),
        ]);
        self.out.push(o);
      }
      _ => rustc_ast::visit::walk_item(self, i),
    }
  }
}

fn ast_pass<'tcx>(tcx: TyCtxt<'tcx>) -> V {
  let r = tcx.resolver_for_lowering().borrow();
  let krate = &r.1;
  let mut v = AstV { stack: vec![], out: vec![] };
  rustc_ast::visit::walk_crate(&mut v, krate);
  V::Arr(v.out)
}

// ---------------------------------------------------------------------------
// HIR emitter
// ---------------------------------------------------------------------------

pub struct Em<'tcx> {
  pub tcx: TyCtxt<'tcx>,
  types: HashMap<String, i64>,
  type_list: Vec<String>,
  next_id: i64,
  n_bodies: i64,
  n_closures: i64,
  n_coroutines: i64,
  typeck: Option<&'tcx ty::TypeckResults<'tcx>>,
  owner: Option<LocalDefId>,
}

pub fn strip_generics(s: &str) -> String {
  // remove `::<..>` and `Ident<..>` generic argument lists, keep a leading
  // `<T as Trait>` qualifier.
  let b: Vec<char> = s.chars().collect();
  let mut out = String::with_capacity(s.len());
  let mut i = 0;
  while i < b.len() {
    let c = b[i];
    if c == '<' {
      let prev = out.chars().last();
      let is_generic = match prev {
        Some(p) if p.is_alphanumeric() || p == '_' => true,
        Some(':') => true,
        _ => false,
      };
      if is_generic {
        // skip to matching '>'
        let mut depth = 0;
        let mut j = i;
        while j < b.len() {
          if b[j] == '<' {
            depth += 1;
          } else if b[j] == '>' && !(j > 0 && b[j - 1] == '-') {
            depth -= 1;
            if depth == 0 {
              break;
            }
          }
          j += 1;
        }
        if out.ends_with("::") {
          out.pop();
          out.pop();
        }
        i = j + 1;
        continue;
      }
    }
    out.push(c);
    i += 1;
  }
  out
}

impl<'tcx> Em<'tcx> {
  fn new(tcx: TyCtxt<'tcx>) -> Self {
    Em {
      tcx,
      types: HashMap::new(),
      type_list: vec![],
      next_id: 0,
      n_bodies: 0,
      n_closures: 0,
      n_coroutines: 0,
      typeck: None,
      owner: None,
    }
  }

  pub fn path(&self, did: DefId) -> String {
    let s = ty::print::with_no_trimmed_paths!(self.tcx.def_path_str(did));
    let s = strip_generics(&s).replace("r#", "");
    // prelude re-exports print as the visible path; use the defining enum
    match s.as_str() {
      "std::prelude::v1::Some" => "std::option::Option::Some".to_string(),
      "std::prelude::v1::None" => "std::option::Option::None".to_string(),
      "std::prelude::v1::Ok" => "std::result::Result::Ok".to_string(),
      "std::prelude::v1::Err" => "std::result::Result::Err".to_string(),
      _ => s,
    }
  }

  pub fn ty_id(&mut self, t: Ty<'tcx>) -> V {
    let s = ty::print::with_no_trimmed_paths!(t.to_string());
    if let Some(i) = self.types.get(&s) {
      return V::Int(*i);
    }
    let i = self.type_list.len() as i64;
    self.types.insert(s.clone(), i);
    self.type_list.push(s);
    V::Int(i)
  }

  fn line(&self, sp: Span) -> (String, i64) {
    let sp = sp.source_callsite();
    let sm = self.tcx.sess.source_map();
    let loc = sm.lookup_char_pos(sp.lo());
    let f = match &loc.file.name {
      rustc_span::FileName::Real(r) => match r.local_path() {
        Some(p) => p.to_string_lossy().to_string(),
        None => format!("{:?}", r),
      },
      other => format!("{:?}", other),
    };
    (f, loc.line as i64)
  }

  fn macs(&self, sp: Span) -> Option<V> {
    if !sp.from_expansion() {
      return None;
    }
    let mut v = vec![];
    for ed in sp.macro_backtrace() {
      match ed.kind {
        ExpnKind::Macro(_, name) => v.push(V::Str(name.to_string())),
        ExpnKind::Desugaring(d) => v.push(V::Str(format!("desugar:{:?}", d))),
        ExpnKind::AstPass(p) => v.push(V::Str(format!("astpass:{:?}", p))),
        ExpnKind::Root => {}
      }
    }
    Some(V::Arr(v))
  }

  fn tc(&self) -> &'tcx ty::TypeckResults<'tcx> {
    self.typeck.expect("typeck")
  }

  // ---- ADTs -------------------------------------------------------------

  fn adts(&mut self) -> V {
    let tcx = self.tcx;
    let mut out = vec![];
    // trait impls by self ADT
    let mut impls: HashMap<DefId, Vec<V>> = HashMap::new();
    for (trait_did, impl_ids) in tcx.all_local_trait_impls(()).iter() {
      for imp in impl_ids.iter() {
        let self_ty = tcx.type_of(imp.to_def_id()).instantiate_identity().skip_norm_wip();
        let self_ty = peel(self_ty);
        if let ty::Adt(def, _) = self_ty.kind() {
          let derived = tcx.is_automatically_derived(imp.to_def_id());
          let mut methods = vec![];
          for it in tcx.associated_items(imp.to_def_id()).in_definition_order() {
            methods.push(V::Str(it.name().to_string()));
          }
          let (f, ln) = self.line(tcx.def_span(imp.to_def_id()));
          impls.entry(def.did()).or_default().push(V::Obj(vec![
            ("trait", V::Str(self.path(*trait_did))),
            ("derived", V::Bool(derived)),
            ("items", V::Arr(methods)),
            ("file", V::Str(f)),
            ("ln", V::Int(ln)),
          ]));
        }
      }
    }
    let items = tcx.hir_crate_items(());
    for id in items.free_items() {
      let did = id.owner_id.to_def_id();
      let kind = tcx.def_kind(did);
      if !matches!(kind, DefKind::Struct | DefKind::Enum | DefKind::Union) {
        continue;
      }
      let adt = tcx.adt_def(did);
      let mut variants = vec![];
      for v in adt.variants().iter() {
        let mut fields = vec![];
        for f in v.fields.iter() {
          let fty = tcx.type_of(f.did).instantiate_identity().skip_norm_wip();
          fields.push(V::Obj(vec![
            ("name", V::Str(f.name.to_string())),
            ("ty", self.ty_id(fty)),
            ("pub", V::Bool(f.vis.is_public())),
          ]));
        }
        variants.push(V::Obj(vec![
          ("name", V::Str(v.name.to_string())),
          ("path", V::Str(self.path(v.def_id))),
          ("ctor", V::Str(match v.ctor_kind() {
            Some(hir::def::CtorKind::Fn) => "tuple",
            Some(hir::def::CtorKind::Const) => "unit",
            None => "struct",
          }.into())),
          ("fields", V::Arr(fields)),
        ]));
      }
      let mut methods = vec![];
      for imp in tcx.inherent_impls(did).iter() {
        for it in tcx.associated_items(*imp).in_definition_order() {
          let is_fn = matches!(tcx.def_kind(it.def_id), DefKind::AssocFn);
          methods.push(V::Obj(vec![
            ("name", V::Str(it.name().to_string())),
            ("path", V::Str(self.path(it.def_id))),
            ("pub", V::Bool(tcx.visibility(it.def_id).is_public())),
            ("is_fn", V::Bool(is_fn)),
          ]));
        }
      }
      let (f, ln) = self.line(tcx.def_span(did));
      let reachable = did.as_local().map(|l| tcx.effective_visibilities(()).is_reachable(l)).unwrap_or(false);
      out.push(V::Obj(vec![
        ("path", V::Str(self.path(did))),
        ("kind", V::Str(match kind {
          DefKind::Struct => "struct",
          DefKind::Enum => "enum",
          _ => "union",
        }.into())),
        ("pub", V::Bool(tcx.visibility(did).is_public())),
        ("reachable", V::Bool(reachable)),
        ("file", V::Str(f)),
        ("ln", V::Int(ln)),
        ("variants", V::Arr(variants)),
        ("methods", V::Arr(methods)),
        ("impls", V::Arr(impls.remove(&did).unwrap_or_default())),
      ]));
    }
    V::Arr(out)
  }

  fn traits(&mut self) -> V {
    let tcx = self.tcx;
    let mut out = vec![];
    for id in tcx.hir_crate_items(()).free_items() {
      let did = id.owner_id.to_def_id();
      if !matches!(tcx.def_kind(did), DefKind::Trait) {
        continue;
      }
      let mut methods = vec![];
      for it in tcx.associated_items(did).in_definition_order() {
        if !matches!(tcx.def_kind(it.def_id), DefKind::AssocFn) {
          continue;
        }
        methods.push(V::Obj(vec![
          ("name", V::Str(it.name().to_string())),
          ("path", V::Str(self.path(it.def_id))),
          ("has_default", V::Bool(it.defaultness(tcx).has_value())),
        ]));
      }
      out.push(V::Obj(vec![("path", V::Str(self.path(did))), ("methods", V::Arr(methods))]));
    }
    V::Arr(out)
  }

  // ---- bodies -----------------------------------------------------------

  fn bodies(&mut self) -> V {
    let tcx = self.tcx;
    let mut out = vec![];
    let owners: Vec<LocalDefId> = tcx.hir_body_owners().collect();
    for def in owners {
      let did = def.to_def_id();
      if tcx.is_closure_like(did) {
        continue;
      }
      let kind = tcx.def_kind(did);
      if matches!(kind, DefKind::InlineConst) {
        continue; // emitted inline with its parent
      }
      let Some(body_id) = tcx.hir_maybe_body_owned_by(def).map(|b| b.id()) else { continue };
      self.n_bodies += 1;
      self.owner = Some(def);
      let (f, ln) = self.line(tcx.def_span(did));
      let mut o: Vec<(&'static str, V)> = vec![
        ("path", V::Str(self.path(did))),
        ("kind", V::Str(format!("{:?}", kind))),
        ("file", V::Str(f)),
        ("ln", V::Int(ln)),
      ];
      if matches!(kind, DefKind::Fn | DefKind::AssocFn) {
        o.push(("pub", V::Bool(tcx.visibility(did).is_public())));
        o.push(("reachable", V::Bool(tcx.effective_visibilities(()).is_reachable(def))));
        o.push(("async", V::Bool(tcx.asyncness(did).is_async())));
        let sig = tcx.fn_sig(did).instantiate_identity().skip_norm_wip().skip_binder();
        let ins: Vec<V> = sig.inputs().iter().map(|t| self.ty_id(*t)).collect();
        o.push(("inputs", V::Arr(ins)));
        o.push(("output", self.ty_id(sig.output())));
        if let Some(parent) = tcx.opt_parent(did) {
          match tcx.def_kind(parent) {
            DefKind::Impl { of_trait } => {
              o.push(("derived", V::Bool(tcx.is_automatically_derived(parent))));
              let st = tcx.type_of(parent).instantiate_identity().skip_norm_wip();
              o.push(("self_ty", self.ty_id(st)));
              if let ty::Adt(ad, _) = peel(st).kind() {
                o.push(("self_adt", V::Str(self.path(ad.did()))));
              }
              if of_trait {
                let tr = tcx.impl_trait_ref(parent).instantiate_identity().skip_norm_wip();
                o.push(("impl_trait", V::Str(self.path(tr.def_id))));
                o.push(("trait_method", V::Str(format!("{}::{}", self.path(tr.def_id), tcx.item_name(did)))));
              }
            }
            DefKind::Trait => {
              o.push(("in_trait", V::Str(self.path(parent))));
            }
            _ => {}
          }
        }
      }
      let b = self.body(body_id);
      o.push(("body", b));
      out.push(V::Obj(o));
    }
    V::Arr(out)
  }

  fn body(&mut self, id: hir::BodyId) -> V {
    let tcx = self.tcx;
    let old = self.typeck;
    self.typeck = Some(tcx.typeck_body(id));
    let body = tcx.hir_body(id);
    let mut params = vec![];
    for p in body.params {
      params.push(self.pat(p.pat));
    }
    let value = self.expr(body.value);
    self.typeck = old;
    V::Obj(vec![("params", V::Arr(params)), ("value", value)])
  }

  fn new_id(&mut self) -> i64 {
    let i = self.next_id;
    self.next_id += 1;
    i
  }

  fn common(&mut self, k: &str, hir_id: hir::HirId, sp: Span, ty: Option<Ty<'tcx>>) -> Vec<(&'static str, V)> {
    let mut o: Vec<(&'static str, V)> = Vec::with_capacity(8);
    o.push(("k", V::Str(k.to_string())));
    o.push(("id", V::Int(self.new_id())));
    o.push(("h", V::Int(hir_id.local_id.as_u32() as i64)));
    let (_, ln) = self.line(sp);
    o.push(("ln", V::Int(ln)));
    if let Some(t) = ty {
      o.push(("t", self.ty_id(t)));
    }
    if let Some(m) = self.macs(sp) {
      o.push(("mac", m));
    }
    o
  }

  fn res(&mut self, res: Res, o: &mut Vec<(&'static str, V)>) {
    match res {
      Res::Local(hid) => {
        o.push(("res", V::Str("local".into())));
        o.push(("lid", V::Int(hid.local_id.as_u32() as i64)));
        let name = self.tcx.hir_name(hid).to_string();
        o.push(("name", V::Str(name)));
      }
      Res::Def(kind, did) => {
        let ks = match kind {
          DefKind::Fn => "fn",
          DefKind::AssocFn => "fn",
          DefKind::Ctor(..) => "ctor",
          DefKind::Const { .. } | DefKind::AssocConst { .. } => "const",
          DefKind::Static { .. } => "static",
          DefKind::ConstParam => "constparam",
          DefKind::Struct => "struct",
          DefKind::Variant => "variant",
          _ => "other",
        };
        o.push(("res", V::Str(ks.into())));
        let p = if let DefKind::Ctor(..) = kind {
          self.path(self.tcx.parent(did))
        } else {
          self.path(did)
        };
        o.push(("path", V::Str(p)));
      }
      Res::SelfCtor(impl_did) => {
        o.push(("res", V::Str("ctor".into())));
        let st = self.tcx.type_of(impl_did).instantiate_identity().skip_norm_wip();
        if let ty::Adt(ad, _) = st.kind() {
          o.push(("path", V::Str(self.path(ad.did()))));
        }
      }
      Res::SelfTyAlias { .. } | Res::SelfTyParam { .. } => {
        o.push(("res", V::Str("selfty".into())));
      }
      _ => {
        o.push(("res", V::Str("other".into())));
      }
    }
  }

  fn resolve_inst(&mut self, did: DefId, args: ty::GenericArgsRef<'tcx>, o: &mut Vec<(&'static str, V)>) {
    let tcx = self.tcx;
    // only worth it for trait items
    if !matches!(tcx.def_kind(did), DefKind::AssocFn) {
      return;
    }
    let Some(parent) = tcx.opt_parent(did) else { return };
    if !matches!(tcx.def_kind(parent), DefKind::Trait) {
      return;
    }
    o.push(("trait", V::Str(self.path(parent))));
    let Some(owner) = self.owner else { return };
    if tcx.generics_of(did).count() != args.len() {
      return;
    }
    let env = ty::TypingEnv::post_analysis(tcx, owner.to_def_id());
    let r = std::panic::catch_unwind(std::panic::AssertUnwindSafe(|| ty::Instance::try_resolve(tcx, env, did, args)));
    if let Ok(Ok(Some(inst))) = r {
      let idid = inst.def_id();
      if idid != did {
        o.push(("impl", V::Str(self.path(idid))));
      }
    }
  }

  fn expr(&mut self, e: &'tcx hir::Expr<'tcx>) -> V {
    use hir::ExprKind as K;
    if let K::DropTemps(inner) = e.kind {
      return self.expr(inner);
    }
    let tc = self.tc();
    let ty = tc.expr_ty_opt(e);
    let tya = tc.expr_ty_adjusted_opt(e);
    macro_rules! start {
      ($k:expr) => {{
        let mut o = self.common($k, e.hir_id, e.span, ty);
        if let (Some(a), Some(b)) = (ty, tya) {
          if a != b {
            o.push(("ta", self.ty_id(b)));
          }
        }
        o
      }};
    }
    match e.kind {
      K::ConstBlock(ref cb) => {
        let mut o = start!("ConstBlock");
        o.push(("body", self.body(cb.body)));
        V::Obj(o)
      }
      K::Array(es) => {
        let mut o = start!("Array");
        o.push(("args", V::Arr(es.iter().map(|x| self.expr(x)).collect())));
        V::Obj(o)
      }
      K::Call(f, args) => {
        let mut o = start!("Call");
        let mut emitted_callee = false;
        if let K::Path(ref qp) = f.kind {
          let res = tc.qpath_res(qp, f.hir_id);
          match res {
            Res::Def(DefKind::Fn | DefKind::AssocFn, did) => {
              o.push(("fn", V::Str(self.path(did))));
              let ga = tc.node_args(f.hir_id);
              self.resolve_inst(did, ga, &mut o);
              emitted_callee = true;
            }
            Res::Def(DefKind::Ctor(..), did) => {
              o.push(("ctor", V::Str(self.path(self.tcx.parent(did)))));
              emitted_callee = true;
            }
            Res::SelfCtor(impl_did) => {
              let st = self.tcx.type_of(impl_did).instantiate_identity().skip_norm_wip();
              if let ty::Adt(ad, _) = st.kind() {
                o.push(("ctor", V::Str(self.path(ad.did()))));
                emitted_callee = true;
              }
            }
            _ => {}
          }
        }
        if !emitted_callee {
          o.push(("f", self.expr(f)));
        }
        o.push(("args", V::Arr(args.iter().map(|x| self.expr(x)).collect())));
        V::Obj(o)
      }
      K::MethodCall(seg, recv, args, _sp) => {
        let mut o = start!("MethodCall");
        o.push(("name", V::Str(seg.ident.name.to_string())));
        if let Some(did) = tc.type_dependent_def_id(e.hir_id) {
          o.push(("fn", V::Str(self.path(did))));
          let ga = tc.node_args(e.hir_id);
          self.resolve_inst(did, ga, &mut o);
        }
        if let Some(rt) = tc.expr_ty_adjusted_opt(recv) {
          let p = peel(rt);
          o.push(("recv_ty", self.ty_id(p)));
        }
        o.push(("recv", self.expr(recv)));
        o.push(("args", V::Arr(args.iter().map(|x| self.expr(x)).collect())));
        V::Obj(o)
      }
      K::Use(inner, _) => {
        let mut o = start!("Use");
        o.push(("e", self.expr(inner)));
        V::Obj(o)
      }
      K::Tup(es) => {
        let mut o = start!("Tup");
        o.push(("args", V::Arr(es.iter().map(|x| self.expr(x)).collect())));
        V::Obj(o)
      }
      K::Binary(op, l, r) => {
        let mut o = start!("Binary");
        o.push(("op", V::Str(op.node.as_str().to_string())));
        if tc.is_method_call(e) {
          if let Some(did) = tc.type_dependent_def_id(e.hir_id) {
            o.push(("fn", V::Str(self.path(did))));
          }
        }
        o.push(("l", self.expr(l)));
        o.push(("r", self.expr(r)));
        V::Obj(o)
      }
      K::Unary(op, inner) => {
        let mut o = start!("Unary");
        o.push(("op", V::Str(match op {
          hir::UnOp::Deref => "*",
          hir::UnOp::Not => "!",
          hir::UnOp::Neg => "-",
        }.to_string())));
        o.push(("e", self.expr(inner)));
        V::Obj(o)
      }
      K::Lit(lit) => {
        let mut o = start!("Lit");
        use rustc_ast::LitKind as L;
        match lit.node {
          L::Str(s, _) => {
            o.push(("lk", V::Str("str".into())));
            o.push(("v", V::Str(s.to_string())));
          }
          L::ByteStr(ref b, _) | L::CStr(ref b, _) => {
            o.push(("lk", V::Str("bytes".into())));
            o.push(("v", V::Arr(b.as_byte_str().iter().map(|x| V::Int(*x as i64)).collect())));
          }
          L::Byte(b) => {
            o.push(("lk", V::Str("byte".into())));
            o.push(("v", V::Int(b as i64)));
          }
          L::Char(c) => {
            o.push(("lk", V::Str("char".into())));
            o.push(("v", V::Str(c.to_string())));
          }
          L::Int(n, _) => {
            o.push(("lk", V::Str("int".into())));
            o.push(("v", V::Int(n.get() as i64)));
          }
          L::Float(s, _) => {
            o.push(("lk", V::Str("float".into())));
            o.push(("v", V::Str(s.to_string())));
          }
          L::Bool(b) => {
            o.push(("lk", V::Str("bool".into())));
            o.push(("v", V::Bool(b)));
          }
          L::Err(_) => {
            o.push(("lk", V::Str("err".into())));
          }
        }
        V::Obj(o)
      }
      K::Cast(inner, _) => {
        let mut o = start!("Cast");
        o.push(("e", self.expr(inner)));
        V::Obj(o)
      }
      K::Type(inner, _) => {
        let mut o = start!("Type");
        o.push(("e", self.expr(inner)));
        V::Obj(o)
      }
      K::Let(l) => {
        let mut o = start!("Let");
        o.push(("pat", self.pat(l.pat)));
        o.push(("init", self.expr(l.init)));
        V::Obj(o)
      }
      K::If(c, t, el) => {
        let mut o = start!("If");
        o.push(("cond", self.expr(c)));
        o.push(("then", self.expr(t)));
        if let Some(x) = el {
          o.push(("else", self.expr(x)));
        }
        V::Obj(o)
      }
      K::Loop(block, label, source, _) => {
        // while / while-let:  loop { if cond { body } else { break } }
        if matches!(source, hir::LoopSource::While) {
          if let (true, Some(inner)) = (block.stmts.is_empty(), block.expr) {
            let inner = peel_drop_temps(inner);
            if let K::If(c, t, Some(_)) = inner.kind {
              let mut o = start!("While");
              if let Some(l) = label {
                o.push(("label", V::Str(l.ident.name.to_string())));
              }
              o.push(("cond", self.expr(c)));
              o.push(("body", self.expr(t)));
              return V::Obj(o);
            }
          }
        }
        let mut o = start!("Loop");
        if let Some(l) = label {
          o.push(("label", V::Str(l.ident.name.to_string())));
        }
        o.push(("src", V::Str(format!("{:?}", source))));
        o.push(("body", self.block(block)));
        V::Obj(o)
      }
      K::Match(scrut, arms, source) => {
        match source {
          hir::MatchSource::TryDesugar(_) => {
            if let K::Call(_, [inner]) = scrut.kind {
              let mut o = start!("Try");
              o.push(("e", self.expr(inner)));
              return V::Obj(o);
            }
          }
          hir::MatchSource::AwaitDesugar => {
            if let K::Call(_, [inner]) = scrut.kind {
              let mut o = start!("Await");
              o.push(("e", self.expr(inner)));
              return V::Obj(o);
            }
          }
          hir::MatchSource::ForLoopDesugar => {
            // match into_iter(ITER) { mut iter => loop { match next(&mut iter) { None => break, Some(PAT) => BODY } } }
            if let (K::Call(_, [iter]), [arm]) = (&scrut.kind, arms) {
              if let K::Loop(lb, label, _, _) = arm.body.kind {
                let inner = lb.expr.or_else(|| {
                  lb.stmts.first().and_then(|s| match s.kind {
                    hir::StmtKind::Expr(x) | hir::StmtKind::Semi(x) => Some(x),
                    _ => None,
                  })
                });
                if let Some(inner) = inner {
                  if let K::Match(_, [_none, some], _) = inner.kind {
                    let mut o = start!("For");
                    o.push(("h", V::Int(arm.body.hir_id.local_id.as_u32() as i64)));
                    if let Some(l) = label {
                      o.push(("label", V::Str(l.ident.name.to_string())));
                    }
                    // the pattern bound by Some(PAT)
                    let pat = match some.pat.kind {
                      hir::PatKind::Struct(_, [f], _) => self.pat(f.pat),
                      hir::PatKind::TupleStruct(_, [p], _) => self.pat(p),
                      _ => self.pat(some.pat),
                    };
                    o.push(("pat", pat));
                    o.push(("iter", self.expr(iter)));
                    // resolved IntoIterator impl of the iterated expression
                    if let K::Call(f, _) = scrut.kind {
                      if let K::Path(ref qp) = f.kind {
                        if let Res::Def(_, did) = tc.qpath_res(qp, f.hir_id) {
                          let ga = tc.node_args(f.hir_id);
                          let mut tmp = vec![];
                          self.resolve_inst(did, ga, &mut tmp);
                          for (k, v) in tmp {
                            if k == "impl" {
                              o.push(("into_iter_impl", v));
                            }
                          }
                        }
                      }
                    }
                    o.push(("body", self.expr(some.body)));
                    return V::Obj(o);
                  }
                }
              }
            }
          }
          _ => {}
        }
        let mut o = start!("Match");
        o.push(("src", V::Str(match source {
          hir::MatchSource::Normal => "normal".to_string(),
          hir::MatchSource::Postfix => "postfix".to_string(),
          other => format!("{:?}", other),
        })));
        o.push(("scrut", self.expr(scrut)));
        let mut av = vec![];
        for a in arms {
          let mut ao: Vec<(&'static str, V)> = vec![("pat", self.pat(a.pat))];
          if let Some(g) = a.guard {
            ao.push(("guard", self.expr(g)));
          }
          ao.push(("body", self.expr(a.body)));
          av.push(V::Obj(ao));
        }
        o.push(("arms", V::Arr(av)));
        V::Obj(o)
      }
      K::Closure(c) => {
        let mut o = start!("Closure");
        let ck = match c.kind {
          hir::ClosureKind::Closure => {
            self.n_closures += 1;
            "closure".to_string()
          }
          hir::ClosureKind::Coroutine(ck) => {
            self.n_coroutines += 1;
            format!("coroutine:{:?}", ck)
          }
          hir::ClosureKind::CoroutineClosure(d) => {
            self.n_closures += 1;
            format!("coroutine_closure:{:?}", d)
          }
        };
        o.push(("ck", V::Str(ck)));
        o.push(("def", V::Str(self.path(c.def_id.to_def_id()))));
        o.push(("body", self.body(c.body)));
        V::Obj(o)
      }
      K::Block(b, label) => {
        let mut v = self.block(b);
        if let (Some(l), V::Obj(ref mut o)) = (label, &mut v) {
          o.push(("label", V::Str(l.ident.name.to_string())));
        }
        v
      }
      K::Assign(l, r, _) => {
        let mut o = start!("Assign");
        o.push(("l", self.expr(l)));
        o.push(("r", self.expr(r)));
        V::Obj(o)
      }
      K::AssignOp(op, l, r) => {
        let mut o = start!("AssignOp");
        o.push(("op", V::Str(op.node.as_str().to_string())));
        o.push(("l", self.expr(l)));
        o.push(("r", self.expr(r)));
        V::Obj(o)
      }
      K::Field(base, ident) => {
        let mut o = start!("Field");
        o.push(("field", V::Str(ident.name.to_string())));
        if let Some(bt) = tc.expr_ty_adjusted_opt(base) {
          // auto-deref chain: find the first ADT that has this field
          let mut t = bt;
          for _ in 0..8 {
            t = peel(t);
            if let ty::Adt(ad, args) = t.kind() {
              let has = ad.is_struct() && ad.non_enum_variant().fields.iter().any(|f| f.name == ident.name);
              if has || ad.is_union() {
                o.push(("adt", V::Str(self.path(ad.did()))));
                break;
              }
              // Box<T> / Rc<T> etc: try first type arg
              if let Some(inner) = args.types().next() {
                t = inner;
                continue;
              }
            }
            break;
          }
        }
        o.push(("e", self.expr(base)));
        V::Obj(o)
      }
      K::Index(b, i, _) => {
        let mut o = start!("Index");
        o.push(("e", self.expr(b)));
        o.push(("idx", self.expr(i)));
        V::Obj(o)
      }
      K::Path(ref qp) => {
        let mut o = start!("Path");
        let res = tc.qpath_res(qp, e.hir_id);
        self.res(res, &mut o);
        V::Obj(o)
      }
      K::AddrOf(_, m, inner) => {
        let mut o = start!("AddrOf");
        o.push(("mut", V::Bool(m.is_mut())));
        o.push(("e", self.expr(inner)));
        V::Obj(o)
      }
      K::Break(dest, val) => {
        let mut o = start!("Break");
        if let Some(l) = dest.label {
          o.push(("label", V::Str(l.ident.name.to_string())));
        }
        if let Ok(h) = dest.target_id {
          o.push(("target", V::Int(h.local_id.as_u32() as i64)));
        }
        if let Some(v) = val {
          o.push(("e", self.expr(v)));
        }
        V::Obj(o)
      }
      K::Continue(dest) => {
        let mut o = start!("Continue");
        if let Some(l) = dest.label {
          o.push(("label", V::Str(l.ident.name.to_string())));
        }
        if let Ok(h) = dest.target_id {
          o.push(("target", V::Int(h.local_id.as_u32() as i64)));
        }
        V::Obj(o)
      }
      K::Ret(val) => {
        let mut o = start!("Ret");
        if let Some(v) = val {
          o.push(("e", self.expr(v)));
        }
        V::Obj(o)
      }
      K::Struct(qp, fields, tail) => {
        let mut o = start!("Struct");
        let res = tc.qpath_res(qp, e.hir_id);
        if let Some(t) = ty {
          if let ty::Adt(ad, _) = t.kind() {
            o.push(("adt", V::Str(self.path(ad.did()))));
            let vpath = match res {
              Res::Def(DefKind::Variant, vd) => self.path(vd),
              _ => self.path(ad.did()),
            };
            o.push(("variant", V::Str(vpath)));
          }
        }
        let mut fv = vec![];
        for f in fields {
          fv.push(V::Obj(vec![
            ("name", V::Str(f.ident.name.to_string())),
            ("shorthand", V::Bool(f.is_shorthand)),
            ("e", self.expr(f.expr)),
          ]));
        }
        o.push(("fields", V::Arr(fv)));
        match tail {
          hir::StructTailExpr::Base(b) => o.push(("base", self.expr(b))),
          hir::StructTailExpr::DefaultFields(_) => o.push(("base_default", V::Bool(true))),
          _ => {}
        }
        V::Obj(o)
      }
      K::Repeat(inner, _) => {
        let mut o = start!("Repeat");
        o.push(("e", self.expr(inner)));
        V::Obj(o)
      }
      K::Yield(inner, _) => {
        let mut o = start!("Yield");
        o.push(("e", self.expr(inner)));
        V::Obj(o)
      }
      K::Become(inner) => {
        let mut o = start!("Become");
        o.push(("e", self.expr(inner)));
        V::Obj(o)
      }
      K::UnsafeBinderCast(_, inner, _) => {
        let mut o = start!("UnsafeBinderCast");
        o.push(("e", self.expr(inner)));
        V::Obj(o)
      }
      K::DropTemps(_) => unreachable!(),
      K::InlineAsm(_) => V::Obj(start!("InlineAsm")),
      K::OffsetOf(..) => V::Obj(start!("OffsetOf")),
      K::Err(_) => V::Obj(start!("Err")),
    }
  }

  fn block(&mut self, b: &'tcx hir::Block<'tcx>) -> V {
    let ty = self.tc().node_type_opt(b.hir_id);
    let mut o = self.common("Block", b.hir_id, b.span, ty);
    if !matches!(b.rules, hir::BlockCheckMode::DefaultBlock) {
      o.push(("unsafe", V::Bool(true)));
    }
    let mut sv = vec![];
    for s in b.stmts {
      match s.kind {
        hir::StmtKind::Let(l) => {
          let mut so = self.common("LetStmt", s.hir_id, s.span, None);
          so.push(("pat", self.pat(l.pat)));
          if let Some(i) = l.init {
            so.push(("init", self.expr(i)));
          }
          if let Some(e) = l.els {
            so.push(("else", self.block(e)));
          }
          sv.push(V::Obj(so));
        }
        hir::StmtKind::Item(_) => {}
        hir::StmtKind::Expr(x) => {
          sv.push(self.expr(x));
        }
        hir::StmtKind::Semi(x) => {
          let mut so = self.common("Semi", s.hir_id, s.span, None);
          so.push(("e", self.expr(x)));
          sv.push(V::Obj(so));
        }
      }
    }
    o.push(("stmts", V::Arr(sv)));
    if let Some(x) = b.expr {
      o.push(("expr", self.expr(x)));
    }
    V::Obj(o)
  }

  fn pat(&mut self, p: &'tcx hir::Pat<'tcx>) -> V {
    use hir::PatKind as P;
    let tc = self.tc();
    let ty = tc.node_type_opt(p.hir_id);
    let mut o = self.common("Pat", p.hir_id, p.span, ty);
    match p.kind {
      P::Wild => o.push(("pk", V::Str("wild".into()))),
      P::Missing => o.push(("pk", V::Str("missing".into()))),
      P::Never => o.push(("pk", V::Str("never".into()))),
      P::Binding(mode, hid, ident, sub) => {
        o.push(("pk", V::Str("bind".into())));
        o.push(("name", V::Str(ident.name.to_string())));
        o.push(("lid", V::Int(hid.local_id.as_u32() as i64)));
        o.push(("mode", V::Str(format!("{:?}", mode))));
        if let Some(s) = sub {
          o.push(("sub", self.pat(s)));
        }
      }
      P::Struct(ref qp, fields, rest) => {
        o.push(("pk", V::Str("struct".into())));
        let res = tc.qpath_res(qp, p.hir_id);
        self.res(res, &mut o);
        let mut fv = vec![];
        for f in fields {
          fv.push(V::Obj(vec![("name", V::Str(f.ident.name.to_string())), ("pat", self.pat(f.pat))]));
        }
        o.push(("fields", V::Arr(fv)));
        o.push(("rest", V::Bool(rest.is_some())));
      }
      P::TupleStruct(ref qp, pats, _) => {
        o.push(("pk", V::Str("tuplestruct".into())));
        let res = tc.qpath_res(qp, p.hir_id);
        self.res(res, &mut o);
        o.push(("pats", V::Arr(pats.iter().map(|x| self.pat(x)).collect())));
      }
      P::Or(pats) => {
        o.push(("pk", V::Str("or".into())));
        o.push(("pats", V::Arr(pats.iter().map(|x| self.pat(x)).collect())));
      }
      P::Tuple(pats, _) => {
        o.push(("pk", V::Str("tuple".into())));
        o.push(("pats", V::Arr(pats.iter().map(|x| self.pat(x)).collect())));
      }
      P::Box(inner) => {
        o.push(("pk", V::Str("box".into())));
        o.push(("pats", V::Arr(vec![self.pat(inner)])));
      }
      P::Deref(inner) => {
        o.push(("pk", V::Str("deref".into())));
        o.push(("pats", V::Arr(vec![self.pat(inner)])));
      }
      P::Ref(inner, ..) => {
        o.push(("pk", V::Str("ref".into())));
        o.push(("pats", V::Arr(vec![self.pat(inner)])));
      }
      P::Expr(pe) => match pe.kind {
        hir::PatExprKind::Path(ref qp) => {
          o.push(("pk", V::Str("path".into())));
          let res = tc.qpath_res(qp, pe.hir_id);
          self.res(res, &mut o);
        }
        hir::PatExprKind::Lit { lit, negated } => {
          o.push(("pk", V::Str("lit".into())));
          use rustc_ast::LitKind as L;
          match lit.node {
            L::Str(s, _) => o.push(("v", V::Str(s.to_string()))),
            L::Int(n, _) => o.push(("v", V::Int(n.get() as i64))),
            L::Bool(b) => o.push(("v", V::Bool(b))),
            L::Char(c) => o.push(("v", V::Str(c.to_string()))),
            L::Byte(b) => o.push(("v", V::Int(b as i64))),
            _ => {}
          }
        }
        _ => o.push(("pk", V::Str("constexpr".into()))),
      },
      P::Guard(inner, g) => {
        o.push(("pk", V::Str("guard".into())));
        o.push(("pats", V::Arr(vec![self.pat(inner)])));
        o.push(("guard", self.expr(g)));
      }
      P::Range(..) => o.push(("pk", V::Str("range".into()))),
      P::Slice(a, mid, b) => {
        o.push(("pk", V::Str("slice".into())));
        let mut v: Vec<V> = a.iter().map(|x| self.pat(x)).collect();
        if let Some(m) = mid {
          v.push(self.pat(m));
        }
        v.extend(b.iter().map(|x| self.pat(x)));
        o.push(("pats", V::Arr(v)));
        o.push(("rest", V::Bool(mid.is_some())));
      }
      P::Err(_) => o.push(("pk", V::Str("err".into()))),
    }
    V::Obj(o)
  }
}

fn peel<'tcx>(mut t: Ty<'tcx>) -> Ty<'tcx> {
  loop {
    match t.kind() {
      ty::Ref(_, inner, _) => t = *inner,
      ty::RawPtr(inner, _) => t = *inner,
      _ => return t,
    }
  }
}

fn peel_drop_temps<'a, 'tcx>(mut e: &'a hir::Expr<'tcx>) -> &'a hir::Expr<'tcx> {
  while let hir::ExprKind::DropTemps(inner) = e.kind {
    e = inner;
  }
  e
}
