// ADTs of selected foreign crates (through crate metadata), for rules that
// compare local code against a dependency's data model (e.g. swc AST nodes
// that carry a module specifier).
use crate::json::V;
use crate::Em;
use rustc_hir::def::DefKind;
use rustc_hir::def_id::{CrateNum, DefId};
use rustc_middle::ty::{self, TyCtxt};
use std::collections::HashSet;

pub fn collect<'tcx>(tcx: TyCtxt<'tcx>, em: &mut Em<'tcx>) -> V {
  let want: Vec<String> = std::env::var("DGFACTS_EXTERN")
    .unwrap_or_else(|_| "swc_ecma_ast".to_string())
    .split(',')
    .map(|s| s.trim().to_string())
    .filter(|s| !s.is_empty())
    .collect();
  let mut out = vec![];
  for &cnum in tcx.crates(()).iter() {
    let name = tcx.crate_name(cnum).to_string();
    if !want.contains(&name) {
      continue;
    }
    let mut seen: HashSet<DefId> = HashSet::new();
    let mut stack = vec![cnum.as_def_id()];
    while let Some(m) = stack.pop() {
      if !seen.insert(m) {
        continue;
      }
      for child in tcx.module_children(m).iter() {
        let Some(did) = child.res.opt_def_id() else { continue };
        if did.krate != cnum {
          continue;
        }
        match tcx.def_kind(did) {
          DefKind::Mod => stack.push(did),
          DefKind::Struct | DefKind::Enum => {
            if !seen.insert(did) {
              continue;
            }
            let adt = tcx.adt_def(did);
            let mut variants = vec![];
            for v in adt.variants().iter() {
              let mut fields = vec![];
              for f in v.fields.iter() {
                let fty = tcx.type_of(f.did).instantiate_identity().skip_norm_wip();
                let s = ty::print::with_no_trimmed_paths!(fty.to_string());
                fields.push(V::Obj(vec![("name", V::Str(f.name.to_string())), ("ty", V::Str(s))]));
              }
              variants.push(V::Obj(vec![("name", V::Str(v.name.to_string())), ("fields", V::Arr(fields))]));
            }
            out.push(V::Obj(vec![
              ("crate", V::Str(name.clone())),
              ("path", V::Str(em.path(did))),
              ("name", V::Str(tcx.item_name(did).to_string())),
              ("kind", V::Str(if adt.is_enum() { "enum" } else { "struct" }.into())),
              ("variants", V::Arr(variants)),
            ]));
          }
          _ => {}
        }
      }
    }
  }
  V::Arr(out)
}
