// minimal JSON value + writer (the driver has no crate dependencies)
pub enum V {
  Null,
  Bool(bool),
  Int(i64),
  Str(String),
  Arr(Vec<V>),
  Obj(Vec<(&'static str, V)>),
  Map(Vec<(String, V)>),
}

fn esc(s: &str, out: &mut String) {
  out.push('"');
  for c in s.chars() {
    match c {
      '"' => out.push_str("\\\""),
      '\\' => out.push_str("\\\\"),
      '\n' => out.push_str("\\n"),
      '\r' => out.push_str("\\r"),
      '\t' => out.push_str("\\t"),
      c if (c as u32) < 0x20 => {
        out.push_str(&format!("\\u{:04x}", c as u32));
      }
      c => out.push(c),
    }
  }
  out.push('"');
}

impl V {
  pub fn write(&self, out: &mut String) {
    match self {
      V::Null => out.push_str("null"),
      V::Bool(b) => out.push_str(if *b { "true" } else { "false" }),
      V::Int(i) => out.push_str(&i.to_string()),
      V::Str(s) => esc(s, out),
      V::Arr(a) => {
        out.push('[');
        for (i, v) in a.iter().enumerate() {
          if i > 0 {
            out.push(',');
          }
          v.write(out);
        }
        out.push(']');
      }
      V::Obj(o) => {
        out.push('{');
        for (i, (k, v)) in o.iter().enumerate() {
          if i > 0 {
            out.push(',');
          }
          esc(k, out);
          out.push(':');
          v.write(out);
        }
        out.push('}');
      }
      V::Map(o) => {
        out.push('{');
        for (i, (k, v)) in o.iter().enumerate() {
          if i > 0 {
            out.push(',');
          }
          esc(k, out);
          out.push(':');
          v.write(out);
        }
        out.push('}');
      }
    }
  }
}
