use deno_graph::*;
use deno_graph::source::*;
use futures::executor::block_on;

fn build(loader: &MemoryLoader, roots: Vec<&str>, kind: GraphKind) -> ModuleGraph {
  let mut graph = ModuleGraph::new(kind);
  let roots = roots.into_iter().map(|r| ModuleSpecifier::parse(r).unwrap()).collect();
  block_on(graph.build(roots, vec![], loader, Default::default()));
  graph
}

#[test]
fn e3_self_redirect() {
  let mut loader = MemoryLoader::default();
  loader.add_source("https://x/a.ts", Source::<&str,&str>::Redirect("https://x/a.ts"));
  let g = build(&loader, vec!["https://x/a.ts"], GraphKind::All);
  let v = serde_json::to_string_pretty(&g).unwrap();
  println!("E3 {}", v);
  assert!(!v.contains("INTERNAL ERROR"));
}

#[test]
fn e3b_self_redirect_nonroot() {
  let mut loader = MemoryLoader::default();
  loader.add_source_with_text("file:///r.ts", "import 'https://x/a.ts';");
  loader.add_source("https://x/a.ts", Source::<&str,&str>::Redirect("https://x/a.ts"));
  let g = build(&loader, vec!["file:///r.ts"], GraphKind::All);
  let v = serde_json::to_string_pretty(&g).unwrap();
  println!("E3b {}", v);
  assert!(!v.contains("INTERNAL ERROR"));
}

#[test]
fn e4_hash_order() {
  let mut outs = std::collections::BTreeSet::new();
  for _ in 0..40 {
    let mut loader = MemoryLoader::default();
    loader.add_source_with_text("file:///r.ts", "await import('./a.ts'); await import('./b.ts'); await import('./d.ts'); await import('./e.ts');");
    for n in ["a","b","d","e"] {
      loader.add_source_with_text(format!("file:///{}.ts", n), "import './c.ts';");
    }
    let g = build(&loader, vec!["file:///r.ts"], GraphKind::All);
    let errs: Vec<String> = g.module_errors().map(|e| e.to_string_with_range()).collect();
    outs.insert(errs.join("|"));
  }
  println!("E4 distinct outcomes: {:#?}", outs);
  assert_eq!(outs.len(), 1);
}

#[test]
fn e1_mutual_self_types() {
  let mut loader = MemoryLoader::default();
  loader.add_source_with_text("file:///a.js", "// @ts-self-types=\"./b.js\"\nexport const a = 1;");
  loader.add_source_with_text("file:///b.js", "// @ts-self-types=\"./a.js\"\nexport const b = 1;");
  let g = build(&loader, vec!["file:///a.js"], GraphKind::All);
  println!("E1 graph {}", serde_json::to_string(&g).unwrap());
  let analyzer = deno_graph::ast::CapturingModuleAnalyzer::default();
  let root = deno_graph::symbols::RootSymbol::new(&g, &analyzer);
  let m = root.module_from_specifier(&ModuleSpecifier::parse("file:///a.js").unwrap());
  println!("E1 done {:?}", m.is_some());
}

#[test]
fn e2_qualified_alias_cycle() {
  let mut loader = MemoryLoader::default();
  loader.add_source_with_text("file:///a.ts", "import A = B.x;\nimport B = A.y;\nexport { A };");
  let g = build(&loader, vec!["file:///a.ts"], GraphKind::All);
  let analyzer = deno_graph::ast::CapturingModuleAnalyzer::default();
  let root = deno_graph::symbols::RootSymbol::new(&g, &analyzer);
  let m = root.module_from_specifier(&ModuleSpecifier::parse("file:///a.ts").unwrap()).unwrap();
  for s in m.symbols() {
    let n: Vec<_> = root.go_to_definitions_or_unresolveds(m, s).collect();
    println!("E2 sym {:?} defs {}", s.maybe_name(), n.len());
  }
}

#[test]
fn e5_bad_export_value() {
  use deno_graph::packages::*;
  let mut loader = MemoryLoader::default();
  loader.add_source_with_text("file:///r.ts", "import 'jsr:@s/p@1.0.0';");
  let mut info = JsrPackageInfo { versions: Default::default(), latest: None };
  info.versions.insert(deno_semver::Version::parse_standard("1.0.0").unwrap(), Default::default());
  loader.add_jsr_package_info("@s/p", &info);
  let vi: JsrPackageVersionInfo = serde_json::from_value(serde_json::json!({
    "exports": { ".": "http://a b/" }, "manifest": {}
  })).unwrap();
  loader.add_jsr_version_info("@s/p", "1.0.0", &vi);
  let rt = tokio::runtime::Builder::new_current_thread().build().unwrap();
  let local = tokio::task::LocalSet::new();
  let g = local.block_on(&rt, async {
    let mut graph = ModuleGraph::new(GraphKind::All);
    graph.build(vec![ModuleSpecifier::parse("file:///r.ts").unwrap()], vec![], &loader, Default::default()).await;
    graph
  });
  println!("E5 {}", serde_json::to_string(&g).unwrap());
}

#[test]
fn e6_specifiers_chain() {
  let mut loader = MemoryLoader::default();
  loader.add_source("https://x/a.ts", Source::<&str,&str>::Redirect("https://x/b.ts"));
  loader.add_source("https://x/b.ts", Source::<&str,&str>::Redirect("https://x/c.ts"));
  loader.add_source_with_text("https://x/c.ts", "export {};");
  let g = build(&loader, vec!["https://x/a.ts"], GraphKind::All);
  println!("E6 redirects {:?}", g.redirects);
  let specs: Vec<String> = g.specifiers().map(|(s, r)| format!("{} -> {}", s, r.is_ok())).collect();
  println!("E6 specifiers {:#?}", specs);
  let a = ModuleSpecifier::parse("https://x/a.ts").unwrap();
  println!("E6 get(a) = {:?}", g.get(&a).map(|m| m.specifier().to_string()));
  assert!(g.specifiers().any(|(s, _)| *s == a));
}
