// observation on the UNMODIFIED tree: segment of a TypesOnly graph
use deno_graph::*;
use deno_graph::source::MemoryLoader;
use url::Url;
#[tokio::test]
async fn f8_types_only_segment() {
  for kind in [GraphKind::All, GraphKind::TypesOnly] {
  let mut loader = MemoryLoader::default();
  loader.add_source_with_text("file:///root.ts", "import './main.ts';");
  loader.add_source_with_text("file:///main.ts", "import { a } from './a.js'; console.log(a);");
  loader.add_source_with_text("file:///a.js", "/// <reference types=\"./a.d.ts\" />\nexport const a = 1;");
  loader.add_source_with_text("file:///a.d.ts", "export const a: number;");
  let mut graph = ModuleGraph::new(kind);
  graph.build(vec![Url::parse("file:///root.ts").unwrap()], Vec::new(), &loader, Default::default()).await;
  let main = Url::parse("file:///main.ts").unwrap();
  let seg = graph.segment(&[main.clone()]);
  let o = graph.resolve_dependency("./a.js", &main, true).cloned();
  let s = seg.resolve_dependency("./a.js", &main, true).cloned();
  println!("F8 kind={:?} original={:?} segment={:?}", kind, o, s);
  println!("F8 segment specifiers: {:?}", seg.specifiers().map(|(s, _)| s.to_string()).collect::<Vec<_>>());
  let mut direct = ModuleGraph::new(kind);
  direct.build(vec![main.clone()], Vec::new(), &loader, Default::default()).await;
  println!("F8 direct  specifiers: {:?}", direct.specifiers().map(|(s, _)| s.to_string()).collect::<Vec<_>>());
  assert_eq!(o, s, "kind {:?}", kind);
  }
}
