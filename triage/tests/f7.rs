// NOT a seeded change: observation on the UNMODIFIED tree (44bc8c5).
// Two registry packages dynamically import the same `jsr:` specifier in the
// same round. Builder::visit_module_dependencies queues dynamic imports in
// `state.dynamic_branches`, an IndexMap keyed by specifier with
// `entry().or_insert_with(..)`, so only the first importer's range survives;
// resolve_dynamic_branches() then calls load() once and mark_jsr_dep books the
// requirement against the first importing package only.
// Output on the unmodified tree:
//   @scope/a@1.0.0 -> ["jsr:@scope/x@1"]
//   @scope/b@1.0.0 -> []            <-- expected ["jsr:@scope/x@1"]
use deno_graph::*;
use deno_graph::packages::*;
use deno_graph::source::MemoryLoader;
use url::Url;
fn add(loader: &mut MemoryLoader, name: &str, text: &str) {
  loader.add_jsr_package_info(name, &JsrPackageInfo { versions: vec![(deno_semver::Version::parse_standard("1.0.0").unwrap(), JsrPackageInfoVersion::default())].into_iter().collect(), latest: None });
  loader.add_jsr_version_info(name, "1.0.0", &JsrPackageVersionInfo { exports: serde_json::json!("./mod.ts"), ..Default::default() });
  loader.add_source_with_text(format!("https://jsr.io/{name}/1.0.0/mod.ts"), text);
}
#[tokio::test]
async fn probe() {
  let mut loader = MemoryLoader::default();
  loader.add_source_with_text("file:///main.ts", "import 'jsr:@scope/a@1'; import 'jsr:@scope/b@1';");
  add(&mut loader, "@scope/a", "await import('jsr:@scope/x@1');");
  add(&mut loader, "@scope/b", "await import('jsr:@scope/x@1');");
  add(&mut loader, "@scope/x", "export {};");
  let mut graph = ModuleGraph::new(GraphKind::All);
  graph.build(vec![Url::parse("file:///main.ts").unwrap()], Vec::new(), &loader, Default::default()).await;
  graph.valid().unwrap();
  let mut missing = vec![];
  for (nv, deps) in graph.packages.packages_with_deps() {
    let d = deps.map(|d| d.to_string()).collect::<Vec<_>>();
    println!("F7 {} -> {:?}", nv, d);
    if (nv.name == "@scope/a" || nv.name == "@scope/b") && d.is_empty() { missing.push(nv.to_string()); }
  }
  assert!(missing.is_empty(), "packages without recorded jsr dependency: {:?}", missing);
}
