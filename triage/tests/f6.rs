use deno_graph::packages::*;
use deno_semver::package::PackageReq;
use std::collections::HashSet;

#[test]
fn f6_build_metadata_tie() {
  let mut outs = std::collections::BTreeSet::new();
  for _ in 0..60 {
    let info: JsrPackageInfo = serde_json::from_str(r#"{"versions": {"1.0.0+a": {}, "1.0.0+b": {}, "1.0.0+c": {}, "0.9.0": {}}}"#).unwrap();
    let resolver = JsrVersionResolver::default();
    let name = "@scope/a".into();
    let r = resolver.get_for_package(&name, &info);
    let req = PackageReq::from_str("@scope/a@^1.0.0").unwrap();
    let cached = HashSet::new();
    let v = r.resolve_version(&req, std::iter::empty(), &cached).unwrap();
    outs.insert(v.version.to_string());
  }
  println!("F6 distinct selections: {:?}", outs);
  assert_eq!(outs.len(), 1, "selected version depends on hash order");
}
